#!/bin/bash
# usage: mrun.sh <patch.diff> <PROP> [more props...]
# detection trial without touching /repo: applies the patch to the scratch worktree ${MR:-/tmp/mr1} and runs the checks from a
# scratch copy of /verif (${VF:-/tmp/vf2}, own build directories) with VERIF_REPO pointing at it
PATCH=$1; shift
rsync -a --exclude .build --exclude .git --exclude replays --exclude evidence --exclude tmp /verif/ ${VF:-/tmp/vf2}/
cd ${MR:-/tmp/mr1} && git checkout -q -- . && git apply $PATCH || { echo APPLY-FAILED; exit 5; }
for P in "$@"; do
  (cd ${VF:-/tmp/vf2} && VERIF_REPO=${MR:-/tmp/mr1} timeout 3000 ./check $P > /tmp/mrun${LANE:-}-$P.log 2>&1; echo "$P exit=$? $(grep -c '^VIOLATION' /tmp/mrun${LANE:-}-$P.log) violations"; grep "signature" /tmp/mrun${LANE:-}-$P.log | sort | uniq -c | sort -rn | head -5; tail -1 /tmp/mrun${LANE:-}-$P.log)
done
cd ${MR:-/tmp/mr1} && git checkout -q -- .
