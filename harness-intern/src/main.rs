//! Operation-sequence driver for jrsonnet-interner with an executable model.
//!
//! Every history of {intern str, intern bytes, clone, drop, cast str<->bytes, pool hand-over
//! (same thread / to another thread)} over a small alphabet is executed against the real
//! interner; after every operation the monitor compares the real state with the model:
//!   * a live handle still has the contents it was created with,
//!   * two live handles are the same allocation (and `==`, and hash equal) exactly when their
//!     contents are equal,
//!   * the pool holds exactly the distinct contents of the live handles,
//!   * the reference count of an allocation is (live handles with that content) + 1,
//!   * `cast_str` succeeds exactly on valid UTF-8,
//! and at the end of the history, with every handle dropped, the pool is empty.
//!
//! usage: jv-intern exhaustive <len> | random <seed> <count> <len> | replay <op> <op> ...
//! prints one JSON line.

use std::collections::{hash_map::DefaultHasher, BTreeMap, BTreeSet};
use std::hash::{Hash, Hasher};

use jrsonnet_interner::{interop, verif, IBytes, IStr};

const STRS: [&str; 4] = ["", "a", "ab", "\u{e9}"];
const BYTES: [&[u8]; 4] = [b"a", &[0xff], &[0xc3, 0xa9], &[0xc3]];
const SLOTS: usize = 4;

enum Handle {
	Str(IStr),
	Bytes(IBytes),
}
impl Handle {
	fn bytes(&self) -> &[u8] {
		match self {
			Handle::Str(s) => s.as_str().as_bytes(),
			Handle::Bytes(b) => b.as_slice(),
		}
	}
	fn ptr(&self) -> *const u8 {
		self.bytes().as_ptr()
	}
	fn count(&self) -> u32 {
		match self {
			Handle::Str(s) => verif::strong_count_str(s),
			Handle::Bytes(b) => verif::strong_count_bytes(b),
		}
	}
}
struct Sendable<T>(T);
// The hand-over protocol of the interner (interop::exit_thread / reenter_thread) exists to move
// a VM, including its interned handles, to another OS thread.
unsafe impl<T> Send for Sendable<T> {}

#[derive(Clone, Copy, Debug, PartialEq, Eq)]
enum Op {
	InternStr(usize),
	InternBytes(usize),
	CloneH(usize),
	DropH(usize),
	Cast(usize),
	HandOver,
	HandOverThread,
}
impl Op {
	fn code(self) -> usize {
		match self {
			Op::InternStr(i) => i,
			Op::InternBytes(i) => 4 + i,
			Op::CloneH(s) => 8 + s,
			Op::DropH(s) => 12 + s,
			Op::Cast(s) => 16 + s,
			Op::HandOver => 20,
			Op::HandOverThread => 21,
		}
	}
	fn from_code(c: usize) -> Op {
		match c {
			0..=3 => Op::InternStr(c),
			4..=7 => Op::InternBytes(c - 4),
			8..=11 => Op::CloneH(c - 8),
			12..=15 => Op::DropH(c - 12),
			16..=19 => Op::Cast(c - 16),
			20 => Op::HandOver,
			_ => Op::HandOverThread,
		}
	}
}

#[derive(Default)]
struct Stats {
	sequences: u64,
	ops: u64,
	checks: u64,
	states: BTreeSet<Vec<(bool, Vec<u8>)>>,
	cast_none: u64,
	handovers: u64,
	thread_handovers: u64,
	max_refcount: u32,
	violation: Option<(String, Vec<usize>)>,
}

struct World {
	real: Vec<Handle>,
	model: Vec<(bool, Vec<u8>)>, // (is_str, contents)
}

fn valid(op: Op, n: usize) -> bool {
	match op {
		Op::InternStr(_) | Op::InternBytes(_) => n < SLOTS,
		Op::CloneH(s) => s < n && n < SLOTS,
		Op::DropH(s) | Op::Cast(s) => s < n,
		Op::HandOver | Op::HandOverThread => true,
	}
}

fn apply(w: &mut World, op: Op, st: &mut Stats) {
	match op {
		Op::InternStr(i) => {
			w.real.push(Handle::Str(IStr::from(STRS[i])));
			w.model.push((true, STRS[i].as_bytes().to_vec()));
		}
		Op::InternBytes(i) => {
			w.real.push(Handle::Bytes(IBytes::from(BYTES[i])));
			w.model.push((false, BYTES[i].to_vec()));
		}
		Op::CloneH(s) => {
			let h = match &w.real[s] {
				Handle::Str(x) => Handle::Str(x.clone()),
				Handle::Bytes(x) => Handle::Bytes(x.clone()),
			};
			w.real.push(h);
			let m = w.model[s].clone();
			w.model.push(m);
		}
		Op::DropH(s) => {
			drop(w.real.remove(s));
			w.model.remove(s);
		}
		Op::Cast(s) => {
			let h = w.real.remove(s);
			let m = w.model.remove(s);
			match h {
				Handle::Str(x) => {
					w.real.insert(s, Handle::Bytes(x.cast_bytes()));
					w.model.insert(s, (false, m.1));
				}
				Handle::Bytes(x) => match x.cast_str() {
					Some(v) => {
						if std::str::from_utf8(&m.1).is_err() {
							st.violation.get_or_insert(("cast_str accepted invalid UTF-8".to_owned(), vec![]));
						}
						w.real.insert(s, Handle::Str(v));
						w.model.insert(s, (true, m.1));
					}
					None => {
						st.cast_none += 1;
						if std::str::from_utf8(&m.1).is_ok() {
							st.violation.get_or_insert(("cast_str rejected valid UTF-8".to_owned(), vec![]));
						}
					}
				},
			}
		}
		Op::HandOver => {
			st.handovers += 1;
			let state = interop::exit_thread();
			// nothing may touch the interner while the pool is parked
			unsafe { interop::reenter_thread(state) };
		}
		Op::HandOverThread => unreachable!("handled by the caller"),
	}
}

fn check(w: &World, st: &mut Stats) -> Result<(), String> {
	st.checks += 1;
	let n = w.real.len();
	let mut by_content: BTreeMap<&[u8], u32> = BTreeMap::new();
	for i in 0..n {
		if w.real[i].bytes() != &w.model[i].1[..] {
			return Err(format!("handle {i} holds {:?}, expected {:?}", w.real[i].bytes(), w.model[i].1));
		}
		match (&w.real[i], w.model[i].0) {
			(Handle::Str(_), true) | (Handle::Bytes(_), false) => {}
			_ => return Err(format!("handle {i} has the wrong kind")),
		}
		*by_content.entry(&w.model[i].1[..]).or_default() += 1;
	}
	for i in 0..n {
		for j in 0..n {
			let same_model = w.model[i].1 == w.model[j].1;
			let same_ptr = w.real[i].ptr() == w.real[j].ptr();
			if same_model != same_ptr {
				return Err(format!("handles {i},{j}: contents equal = {same_model}, same allocation = {same_ptr}"));
			}
			let (eq, heq) = match (&w.real[i], &w.real[j]) {
				(Handle::Str(a), Handle::Str(b)) => (a == b, hash(a) == hash(b)),
				(Handle::Bytes(a), Handle::Bytes(b)) => (a == b, hash(a) == hash(b)),
				_ => (same_model, same_model),
			};
			if eq != same_model {
				return Err(format!("handles {i},{j}: contents equal = {same_model}, `==` = {eq}"));
			}
			if same_model && !heq {
				return Err(format!("handles {i},{j}: equal values hash differently"));
			}
		}
		let want = by_content[&w.model[i].1[..]] + 1;
		let got = w.real[i].count();
		st.max_refcount = st.max_refcount.max(got);
		if got != want {
			return Err(format!("handle {i}: reference count {got}, expected {want} (live handles + pool entry)"));
		}
	}
	let pool = verif::pool_len();
	if pool != by_content.len() {
		return Err(format!("pool holds {pool} entries, {} distinct contents are live", by_content.len()));
	}
	for c in STRS.iter().map(|s| s.as_bytes()).chain(BYTES.iter().copied()) {
		let live = by_content.contains_key(c);
		if verif::pool_contains(c) != live {
			return Err(format!("pool_contains({c:?}) = {}, live = {live}", !live));
		}
	}
	Ok(())
}

fn hash<T: Hash>(v: &T) -> u64 {
	let mut h = DefaultHasher::new();
	v.hash(&mut h);
	h.finish()
}

/// Runs `ops[from..]` on the world; a thread hand-over continues the rest of the history on a new thread.
fn run_from(mut w: World, ops: &[usize], from: usize, st: &mut Stats) -> World {
	let mut i = from;
	while i < ops.len() {
		let op = Op::from_code(ops[i]);
		if !valid(op, w.real.len()) {
			i += 1;
			continue;
		}
		st.ops += 1;
		if op == Op::HandOverThread {
			st.thread_handovers += 1;
			let state = Sendable(interop::exit_thread());
			let world = Sendable(w);
			let rest: Vec<usize> = ops.to_vec();
			let mut inner = Stats::default();
			std::mem::swap(&mut inner, st);
			let idx = i + 1;
			let handle = std::thread::spawn(move || {
				let state = state;
				let world = world;
				unsafe { interop::reenter_thread(state.0) };
				let mut inner = inner;
				let mut w = world.0;
				if let Err(e) = check(&w, &mut inner) {
					inner.violation.get_or_insert((format!("after hand-over to a new thread: {e}"), vec![]));
				}
				w = run_from(w, &rest, idx, &mut inner);
				// hand the pool back to whoever joins us
				let back = Sendable(interop::exit_thread());
				(Sendable(w), Sendable(inner), back)
			});
			let (world, inner, back) = handle.join().expect("worker thread");
			unsafe { interop::reenter_thread(back.0) };
			*st = inner.0;
			return world.0;
		}
		apply(&mut w, op, st);
		if st.violation.is_none() {
			if let Err(e) = check(&w, st) {
				st.violation = Some((e, vec![]));
			}
		}
		if let Some(v) = &mut st.violation {
			if v.1.is_empty() {
				v.1 = ops[..=i].to_vec();
			}
			return w;
		}
		let mut key = w.model.clone();
		key.sort();
		st.states.insert(key);
		i += 1;
	}
	w
}

fn run_sequence(ops: &[usize], st: &mut Stats) {
	st.sequences += 1;
	let w = World { real: Vec::new(), model: Vec::new() };
	let w = run_from(w, ops, 0, st);
	drop(w);
	if st.violation.is_none() && verif::pool_len() != 0 {
		st.violation = Some((format!("{} entries stay in the pool after every handle was dropped", verif::pool_len()), ops.to_vec()));
	}
}

fn exhaustive(len: usize, st: &mut Stats) {
	// all histories of exactly `len` valid operations (shorter ones are their prefixes); the number of live
	// handles after a prefix is determined by the model alone, except for failed casts, which are replayed
	fn rec(prefix: &mut Vec<usize>, n_handles: usize, kinds: &mut Vec<(bool, usize)>, len: usize, st: &mut Stats) {
		if st.violation.is_some() {
			return;
		}
		if prefix.len() == len {
			run_sequence(prefix, st);
			return;
		}
		for code in 0..=20 {
			let op = Op::from_code(code);
			if !valid(op, n_handles) {
				continue;
			}
			// track (is_str, alphabet index) per slot to know the handle count after a cast
			let saved = kinds.clone();
			match op {
				Op::InternStr(i) => kinds.push((true, i)),
				Op::InternBytes(i) => kinds.push((false, i)),
				Op::CloneH(s) => {
					let k = kinds[s];
					kinds.push(k);
				}
				Op::DropH(s) => {
					kinds.remove(s);
				}
				Op::Cast(s) => {
					let (is_str, i) = kinds[s];
					if is_str {
						kinds[s] = (false, 100 + i); // bytes with the contents of STRS[i]
					} else if i >= 100 {
						kinds[s] = (true, i - 100);
					} else if std::str::from_utf8(BYTES[i]).is_ok() {
						kinds[s] = (true, 200 + i); // str with the contents of BYTES[i]
					} else {
						kinds.remove(s);
					}
				}
				_ => {}
			}
			// normalise the bookkeeping of cast results: 200+i is a str holding BYTES[i]; casting it back gives bytes i
			for k in kinds.iter_mut() {
				if !k.0 && k.1 >= 200 {
					*k = (false, k.1 - 200);
				}
			}
			prefix.push(code);
			rec(prefix, kinds.len(), kinds, len, st);
			prefix.pop();
			*kinds = saved;
		}
	}
	rec(&mut Vec::new(), 0, &mut Vec::new(), len, st);
}

struct Rng(u64);
impl Rng {
	fn next(&mut self) -> u64 {
		self.0 ^= self.0 << 13;
		self.0 ^= self.0 >> 7;
		self.0 ^= self.0 << 17;
		self.0
	}
}

fn main() {
	let args: Vec<String> = std::env::args().collect();
	let mut st = Stats::default();
	match args.get(1).map(String::as_str) {
		Some("exhaustive") => {
			let len: usize = args[2].parse().expect("len");
			exhaustive(len, &mut st);
		}
		Some("random") => {
			let seed: u64 = args[2].parse().expect("seed");
			let count: usize = args[3].parse().expect("count");
			let len: usize = args[4].parse().expect("len");
			let mut rng = Rng(seed.wrapping_mul(0x9E37_79B9_7F4A_7C15) | 1);
			for _ in 0..count {
				let mut ops = Vec::with_capacity(len);
				for _ in 0..len {
					let r = rng.next() % 100;
					ops.push(if r < 3 { 21 } else if r < 8 { 20 } else { (rng.next() % 20) as usize });
				}
				run_sequence(&ops, &mut st);
				if st.violation.is_some() {
					break;
				}
			}
		}
		Some("replay") => {
			let ops: Vec<usize> = args[2..].iter().map(|a| a.parse().expect("op")).collect();
			run_sequence(&ops, &mut st);
		}
		_ => {
			eprintln!("usage: jv-intern exhaustive <len> | random <seed> <count> <len> | replay <op>...");
			std::process::exit(2);
		}
	}
	let viol = match &st.violation {
		Some((msg, ops)) => format!(
			"{{\"message\":{:?},\"ops\":{:?},\"decoded\":{:?}}}",
			msg,
			ops,
			ops.iter().map(|c| format!("{:?}", Op::from_code(*c))).collect::<Vec<_>>()
		),
		None => "null".to_owned(),
	};
	println!(
		"{{\"sequences\":{},\"ops\":{},\"checks\":{},\"distinct_states\":{},\"cast_none\":{},\"handovers\":{},\"thread_handovers\":{},\"max_refcount\":{},\"violation\":{}}}",
		st.sequences, st.ops, st.checks, st.states.len(), st.cast_none, st.handovers, st.thread_handovers, st.max_refcount, viol
	);
}
