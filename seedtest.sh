#!/bin/bash
# usage: seedtest.sh <worktree> <k> <PROP> [more props...]
# 1. confirms the seeded change in the scratch worktree (tests still pass, demo differs)
# 2. applies it to /repo, runs the quick checks, undoes it
WT=$1; K=$2; shift 2
D=$WT/OUT
set -u
echo "== confirm in $WT"
cd $WT && git checkout -q -- . && git apply $D/mutant$K.diff || { echo "APPLY-FAILED in worktree"; exit 3; }
cargo test --workspace --no-fail-fast --offline > $D/confirm_test$K.log 2>&1
grep -E "^test .*FAILED" $D/confirm_test$K.log | sort | uniq -c
PASS=$(grep -E "^test result" $D/confirm_test$K.log | awk '{s+=$4} END{print s}')
echo "tests passed with mutant: $PASS"
PKGS="-p jrsonnet -p jrsonnet-fmt -p jrsonnet-deps -p libjsonnet"
cargo build -q --offline $PKGS 2>/dev/null
if [ -f $D/demo$K.jsonnet ]; then (cd $D && timeout 60 $WT/target/debug/jrsonnet demo$K.jsonnet > confirm_demo$K.mutant.out 2>&1; echo "rc=$?" >> confirm_demo$K.mutant.out); fi
if [ -f $D/demo$K.sh ]; then (cd $D && timeout 900 bash demo$K.sh $WT/target/debug > confirm_demosh$K.mutant.out 2>&1; echo "rc=$?" > confirm_demosh$K.mutant.rc); fi
git checkout -q -- . 
cargo build -q --offline $PKGS 2>/dev/null
if [ -f $D/demo$K.jsonnet ]; then (cd $D && timeout 60 $WT/target/debug/jrsonnet demo$K.jsonnet > confirm_demo$K.pristine.out 2>&1; echo "rc=$?" >> confirm_demo$K.pristine.out); cmp -s $D/confirm_demo$K.mutant.out $D/confirm_demo$K.pristine.out && echo "DEMO-SAME (not confirmed)" || echo "demo differs: confirmed"; fi
if [ -f $D/demo$K.sh ]; then (cd $D && timeout 900 bash demo$K.sh $WT/target/debug > confirm_demosh$K.pristine.out 2>&1; echo "rc=$?" > confirm_demosh$K.pristine.rc); echo "demo.sh mutant $(cat $D/confirm_demosh$K.mutant.rc) pristine $(cat $D/confirm_demosh$K.pristine.rc)"; [ "$(cat $D/confirm_demosh$K.pristine.rc)" = "rc=0" ] && [ "$(cat $D/confirm_demosh$K.mutant.rc)" != "rc=0" ] && echo "demo differs: confirmed" || echo "DEMO-SAME (not confirmed)"; fi
echo "== run checks on /repo with mutant"
cd /repo && git status --short | grep -v '^??' && { echo "/repo dirty"; exit 4; }
git apply $D/mutant$K.diff || { echo "APPLY-FAILED in /repo"; exit 5; }
for P in "$@"; do
  (cd /verif && timeout 3000 ./check $P > /tmp/seedrun-$P.log 2>&1; echo "$P exit=$? $(grep -c '^VIOLATION' /tmp/seedrun-$P.log) violations"; grep -m3 "signature" /tmp/seedrun-$P.log)
done
git -C /repo checkout -q -- .
echo "== /repo restored"; git -C /repo status --short | grep -v '^??'
