#!/bin/sh
# Run once after a fresh restore, offline: builds the instrumented harness binaries and
# the repository's executables from files on disk only.
set -e
cd "$(dirname "$0")"
export CARGO_NET_OFFLINE=true
python3 - <<'PY'
import sys
sys.path.insert(0, ".")
from mon import runner
runner.build("rel")
runner.build("chk")
runner.build("rel", features="exp")
cli = runner.build_cli()
runner.build_intern("rel")
runner.build_intern("chk")
try:
    runner.build_intern("miri")
except runner.Broken as e:      # C18 reports this as inconclusive, not as a violation
    print("setup: Miri run not available:", e)
from mon import sanit
for what, f in (("AddressSanitizer worker", lambda: runner.build("asan")), ("Miri worker", sanit.build_miri_worker)):
    try:
        f()
    except runner.Broken as e:  # the sanitizer passes report this as inconclusive, not as a violation
        print("setup: %s not available:" % what, e)
from mon.props import c15
c15.build_cdriver(cli)
print("setup: builds ready")
PY
