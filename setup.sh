#!/bin/sh
# Run once after a fresh restore, offline: builds the instrumented harness binaries and
# the repository's executables from files on disk only.
set -e
cd "$(dirname "$0")"
export CARGO_NET_OFFLINE=true
python3 - <<'PY'
import sys
sys.path.insert(0, ".")
from mon import runner
runner.build("rel")
runner.build("chk")
runner.build_cli()
print("setup: builds ready")
PY
