#!/bin/bash
# usage: confirm.sh <worktree> <k>
# confirms a seeded change in its scratch worktree only (suite unchanged, demonstration differs); does not touch /repo
WT=$1; K=$2
D=$WT/OUT
set -u
cd $WT && git checkout -q -- . && git apply $D/mutant$K.diff || { echo "APPLY-FAILED in worktree"; exit 3; }
cargo test --workspace --no-fail-fast --offline > $D/confirm_test$K.log 2>&1
echo "failed tests with mutant: $(grep -E '^test .*FAILED' $D/confirm_test$K.log | sort -u | tr '\n' ' ')"
PASS=$(grep -E "^test result" $D/confirm_test$K.log | awk '{s+=$4} END{print s}')
echo "tests passed with mutant: $PASS"
PKGS="-p jrsonnet -p jrsonnet-fmt -p jrsonnet-deps -p libjsonnet"
cargo build -q --offline $PKGS 2>/dev/null
if [ -f $D/demo$K.jsonnet ]; then (cd $D && timeout 60 $WT/target/debug/jrsonnet demo$K.jsonnet > confirm_demo$K.mutant.out 2>&1; echo "rc=$?" >> confirm_demo$K.mutant.out); fi
if [ -f $D/demo$K.sh ]; then (cd $D && timeout 900 bash demo$K.sh $WT/target/debug > confirm_demosh$K.mutant.out 2>&1; echo "rc=$?" > confirm_demosh$K.mutant.rc); fi
git checkout -q -- .
cargo build -q --offline $PKGS 2>/dev/null
if [ -f $D/demo$K.jsonnet ]; then (cd $D && timeout 60 $WT/target/debug/jrsonnet demo$K.jsonnet > confirm_demo$K.pristine.out 2>&1; echo "rc=$?" >> confirm_demo$K.pristine.out); cmp -s $D/confirm_demo$K.mutant.out $D/confirm_demo$K.pristine.out && echo "DEMO-SAME (not confirmed)" || echo "demo differs: confirmed"; fi
if [ -f $D/demo$K.sh ]; then (cd $D && timeout 900 bash demo$K.sh $WT/target/debug > confirm_demosh$K.pristine.out 2>&1; echo "rc=$?" > confirm_demosh$K.pristine.rc); echo "demo.sh mutant $(cat $D/confirm_demosh$K.mutant.rc) pristine $(cat $D/confirm_demosh$K.pristine.rc)"; [ "$(cat $D/confirm_demosh$K.pristine.rc)" = "rc=0" ] && [ "$(cat $D/confirm_demosh$K.mutant.rc)" != "rc=0" ] && echo "demo differs: confirmed" || echo "DEMO-SAME (not confirmed)"; fi
