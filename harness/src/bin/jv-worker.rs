//! jv-worker: in-process monitor host.
//!
//! Reads newline-delimited JSON jobs on stdin, runs the real jrsonnet code for each
//! and writes one JSON event record per job on stdout.  Monitors installed here:
//! result recorder, trace collector (TracePrinter), recording / fault-injecting
//! import resolver, GC and interner gauges, panic monitor, structure dumpers.

use std::{
	cell::{Cell, RefCell},
	collections::HashMap,
	io::{BufRead, Write},
	panic::{self, AssertUnwindSafe},
	path::PathBuf,
	rc::Rc,
	sync::Mutex,
};

use jrsonnet_evaluator::{
	apply_tla,
	error::ErrorKind,
	function::CallLocation,
	manifest::{JsonFormat, ManifestFormat, StringFormat, ToStringFormat, YamlStreamFormat},
	stack::limit_stack_depth,
	tla::TlaArg,
	trace::{CompactFormat, PathResolver, TraceFormat},
	AsPathLike, FileImportResolver, IStr, ImportResolver, State,
};
use jrsonnet_gcmodule::Acyclic;
use jrsonnet_ir::{Source, SourceDefaultIgnoreJpath, SourcePath};
use jrsonnet_stdlib::{
	ContextInitializer, IniFormat, TomlFormat, TracePrinter, XmlJsonmlFormat, YamlFormat,
};
use serde_json::{json, Map, Value};

#[path = "../dump.rs"]
mod dump;

// ---------------------------------------------------------------- monitors

thread_local! {
	static TRACES: RefCell<Vec<Value>> = const { RefCell::new(Vec::new()) };
	static IMPORT_LOG: RefCell<Vec<Value>> = const { RefCell::new(Vec::new()) };
	static RESOLVE_N: Cell<u64> = const { Cell::new(0) };
	static LOAD_N: Cell<u64> = const { Cell::new(0) };
	static FAIL_RESOLVE: Cell<u64> = const { Cell::new(0) };
	static FAIL_LOAD: Cell<u64> = const { Cell::new(0) };
	static TRACE_CAP: Cell<usize> = const { Cell::new(100_000) };
	static REPR: RefCell<Option<String>> = const { RefCell::new(None) };
}
static LAST_PANIC: Mutex<Option<(String, String)>> = Mutex::new(None);

#[derive(Acyclic)]
struct CollectingTracePrinter;
impl TracePrinter for CollectingTracePrinter {
	fn print_trace(&self, loc: CallLocation, value: IStr) {
		let (file, line, offset) = match loc.0 {
			Some(span) => {
				let locs = span.0.map_source_locations(&[span.1]);
				(
					span.0.source_path().to_string(),
					locs[0].line as i64,
					i64::from(span.1),
				)
			}
			None => (String::new(), -1, -1),
		};
		TRACES.with_borrow_mut(|t| {
			if t.len() < TRACE_CAP.get() {
				t.push(json!([value.as_str(), file, line, offset]));
			}
		});
	}
}

/// Wraps the real `FileImportResolver`; logs every call with its result and can fail the
/// k-th resolve / load on request (fault injection at the resolver boundary).
#[derive(Acyclic)]
struct RecordingResolver {
	inner: FileImportResolver,
}
impl ImportResolver for RecordingResolver {
	fn resolve_from(
		&self,
		from: &SourcePath,
		path: &dyn AsPathLike,
	) -> jrsonnet_evaluator::Result<SourcePath> {
		let n = RESOLVE_N.get() + 1;
		RESOLVE_N.set(n);
		let p = path.as_path().to_owned().to_string();
		if FAIL_RESOLVE.get() == n {
			IMPORT_LOG.with_borrow_mut(|l| {
				l.push(json!(["resolve", from.to_string(), p, "FAULT"]));
			});
			return Err(ErrorKind::ImportIo("injected resolver fault".to_owned()).into());
		}
		let r = self.inner.resolve_from(from, path);
		IMPORT_LOG.with_borrow_mut(|l| {
			l.push(match &r {
				Ok(v) => json!(["resolve", from.to_string(), p, "ok", v.to_string()]),
				Err(e) => json!(["resolve", from.to_string(), p, "err", kind_name(e.error())]),
			});
		});
		r
	}
	fn resolve_from_default(&self, path: &dyn AsPathLike) -> jrsonnet_evaluator::Result<SourcePath> {
		self.resolve_from(&SourcePath::default(), path)
	}
	fn load_file_contents(&self, resolved: &SourcePath) -> jrsonnet_evaluator::Result<Vec<u8>> {
		let n = LOAD_N.get() + 1;
		LOAD_N.set(n);
		if FAIL_LOAD.get() == n {
			IMPORT_LOG.with_borrow_mut(|l| {
				l.push(json!(["load", resolved.to_string(), "FAULT"]));
			});
			return Err(ErrorKind::ImportIo("injected load fault".to_owned()).into());
		}
		let r = self.inner.load_file_contents(resolved);
		IMPORT_LOG.with_borrow_mut(|l| {
			l.push(match &r {
				Ok(v) => json!(["load", resolved.to_string(), "ok", v.len()]),
				Err(e) => json!(["load", resolved.to_string(), "err", kind_name(e.error())]),
			});
		});
		r
	}
}

fn kind_name(k: &ErrorKind) -> String {
	let d = format!("{k:?}");
	d.chars()
		.take_while(|c| c.is_ascii_alphanumeric() || *c == '_')
		.collect()
}

// ---------------------------------------------------------------- state handling

struct Bundle {
	state: State,
	ctx: Option<ContextInitializer>,
}

fn build_bundle(job: &Map<String, Value>) -> Bundle {
	let jpath: Vec<PathBuf> = job
		.get("jpath")
		.and_then(Value::as_array)
		.map(|a| {
			a.iter()
				.filter_map(Value::as_str)
				.map(PathBuf::from)
				.collect()
		})
		.unwrap_or_default();
	let resolver = RecordingResolver {
		inner: FileImportResolver::new(jpath),
	};
	let no_std = job.get("no_std").and_then(Value::as_bool).unwrap_or(false);
	let mut b = State::builder();
	b.import_resolver(resolver);
	let ctx = if no_std {
		None
	} else {
		let ctx = ContextInitializer::new(PathResolver::Absolute);
		ctx.settings_mut().trace_printer = Rc::new(CollectingTracePrinter);
		b.context_initializer(ctx.clone());
		Some(ctx)
	};
	Bundle {
		state: b.build(),
		ctx,
	}
}

fn tla_arg(kind: &str, value: &str) -> TlaArg {
	match kind {
		"str" => TlaArg::String(value.into()),
		"code" => TlaArg::InlineCode(value.to_owned()),
		"strfile" => TlaArg::ImportStr(value.to_owned()),
		"codefile" => TlaArg::Import(value.to_owned()),
		_ => panic!("harness: bad arg kind {kind}"),
	}
}

fn triples(job: &Map<String, Value>, key: &str) -> Vec<(String, String, String)> {
	job.get(key)
		.and_then(Value::as_array)
		.map(|a| {
			a.iter()
				.map(|t| {
					let t = t.as_array().expect("triple");
					(
						t[0].as_str().expect("name").to_owned(),
						t[1].as_str().expect("kind").to_owned(),
						t[2].as_str().expect("value").to_owned(),
					)
				})
				.collect()
		})
		.unwrap_or_default()
}

fn manifest_format(spec: Option<&Value>) -> Box<dyn ManifestFormat> {
	let Some(spec) = spec else {
		return Box::new(JsonFormat::minify());
	};
	let fmt = spec.get("fmt").and_then(Value::as_str).unwrap_or("json_min");
	let pad = spec.get("pad").and_then(Value::as_u64);
	let ystream = spec.get("ystream").and_then(Value::as_bool).unwrap_or(false);
	let inner: Box<dyn ManifestFormat> = match fmt {
		"json_min" => Box::new(JsonFormat::minify()),
		"json_default" => Box::new(JsonFormat::default()),
		"json" => Box::new(JsonFormat::cli(pad.unwrap_or(3) as usize)),
		"yaml" => Box::new(YamlFormat::cli(pad.unwrap_or(2) as usize)),
		"toml" => Box::new(TomlFormat::cli(pad.unwrap_or(2) as usize)),
		"ini" => Box::new(IniFormat::cli()),
		"xml" => Box::new(XmlJsonmlFormat::cli()),
		"string" => Box::new(StringFormat),
		"tostring" => Box::new(ToStringFormat),
		_ => panic!("harness: bad manifest fmt {fmt}"),
	};
	if ystream {
		Box::new(YamlStreamFormat::cli(inner))
	} else {
		inner
	}
}

fn err_value(e: &jrsonnet_evaluator::Error, resolver: PathResolver, detail: bool) -> Value {
	if !detail {
		let mut v = json!({
			"kind": kind_name(e.error()),
			"msg": e.error().to_string(),
			"nframes": e.trace().0.len(),
		});
		if let ErrorKind::ImportSyntaxError { path, error } = e.error() {
			v["syntax_offset"] = json!(error.location.offset);
			v["syntax_file"] = json!(path.source_path().to_string());
		}
		return v;
	}
	let fmt = CompactFormat {
		resolver,
		max_trace: 20,
		padding: 4,
	};
	let text = fmt.format(e).unwrap_or_else(|_| "<format error>".to_owned());
	let mut frames = Vec::new();
	for el in e.trace().0.iter().take(40) {
		match &el.location {
			Some(span) => {
				let locs = span.0.map_source_locations(&[span.1, span.2]);
				frames.push(json!({
					"desc": el.desc,
					"file": span.0.source_path().to_string(),
					"start": span.1, "end": span.2,
					"line": locs[0].line, "col": locs[0].column,
					"eline": locs[1].line, "ecol": locs[1].column,
				}));
			}
			None => frames.push(json!({"desc": el.desc})),
		}
	}
	let mut v = json!({
		"kind": kind_name(e.error()),
		"msg": e.error().to_string(),
		"text": text,
		"frames": frames,
	});
	if let ErrorKind::ImportSyntaxError { path, error } = e.error() {
		v["syntax_offset"] = json!(error.location.offset);
		v["syntax_file"] = json!(path.source_path().to_string());
	}
	v
}

fn op_eval(job: &Map<String, Value>, states: &mut HashMap<String, Bundle>) -> Value {
	TRACES.with_borrow_mut(Vec::clear);
	IMPORT_LOG.with_borrow_mut(Vec::clear);
	RESOLVE_N.set(0);
	LOAD_N.set(0);
	FAIL_RESOLVE.set(0);
	FAIL_LOAD.set(0);
	if let Some(f) = job.get("fault") {
		FAIL_RESOLVE.set(f.get("resolve").and_then(Value::as_u64).unwrap_or(0));
		FAIL_LOAD.set(f.get("load").and_then(Value::as_u64).unwrap_or(0));
	}
	TRACE_CAP.set(
		job.get("trace_cap")
			.and_then(Value::as_u64)
			.map_or(100_000, |v| v as usize),
	);
	let want_gc = job.get("gc").and_then(Value::as_bool).unwrap_or(false);
	let (gc_before, pool_before) = if want_gc {
		jrsonnet_gcmodule::collect_thread_cycles();
		(
			jrsonnet_gcmodule::count_thread_tracked(),
			jrsonnet_interner::verif::pool_len(),
		)
	} else {
		(0, 0)
	};

	let state_id = job.get("state_id").and_then(Value::as_str);
	let owned;
	let bundle: &Bundle = if let Some(id) = state_id {
		if !states.contains_key(id) {
			states.insert(id.to_owned(), build_bundle(job));
		}
		&states[id]
	} else {
		owned = build_bundle(job);
		&owned
	};

	let mut out = Map::new();
	{
		let _limit = job
			.get("max_stack")
			.and_then(Value::as_u64)
			.map(|n| limit_stack_depth(n as usize));
		let _entered = bundle.state.try_enter();
		if let Some(ctx) = &bundle.ctx {
			for (name, kind, value) in triples(job, "ext") {
				ctx.settings_mut()
					.ext_vars
					.insert(name.as_str().into(), tla_arg(&kind, &value));
			}
		}
		let s = &bundle.state;
		let res = (|| -> jrsonnet_evaluator::Result<String> {
			let val = if let Some(file) = job.get("file").and_then(Value::as_str) {
				s.import_from(&SourcePath::new(SourceDefaultIgnoreJpath), file)?
			} else {
				let code = job.get("code").and_then(Value::as_str).expect("code");
				let name = job
					.get("name")
					.and_then(Value::as_str)
					.unwrap_or("<cmdline>");
				s.evaluate_snippet(name.to_owned(), code)?
			};
			let val = if job.contains_key("tla") {
				let mut args: HashMap<IStr, TlaArg> = HashMap::new();
				for (name, kind, value) in triples(job, "tla") {
					args.insert(name.as_str().into(), tla_arg(&kind, &value));
				}
				apply_tla(&args, val)?
			} else {
				val
			};
			if let Some(dir) = job.get("multi") {
				// --multi semantics per documentation: object of manifestable values
				let fmt = manifest_format(job.get("manifest"));
				let jrsonnet_evaluator::Val::Obj(obj) = val else {
					return Err(ErrorKind::MultiManifestOutputIsNotAObject.into());
				};
				let _ = dir;
				let mut files = Map::new();
				for name in obj.fields() {
					let v = obj.get(name.clone())?.expect("listed field exists");
					let mut text = v.manifest(&fmt)?;
					if fmt.file_trailing_newline() {
						text.push('\n');
					}
					files.insert(name.to_string(), Value::String(text));
				}
				return Ok(serde_json::to_string(&files).expect("json"));
			}
			if job.get("repr").and_then(Value::as_bool).unwrap_or(false) {
				// representation chain of an array value, read hook-free from its Debug
				// output through a truncating writer
				struct Trunc(String, usize);
				impl std::fmt::Write for Trunc {
					fn write_str(&mut self, s: &str) -> std::fmt::Result {
						if self.0.len() + s.len() > self.1 {
							return Err(std::fmt::Error);
						}
						self.0.push_str(s);
						Ok(())
					}
				}
				if let jrsonnet_evaluator::Val::Arr(a) = &val {
					let mut t = Trunc(String::new(), 1500);
					let _ = std::fmt::write(&mut t, format_args!("{a:?}"));
					REPR.with_borrow_mut(|r| *r = Some(t.0));
				}
			}
			let fmt = manifest_format(job.get("manifest"));
			val.manifest(&fmt)
		})();
		if let Some(r) = REPR.with_borrow_mut(Option::take) {
			out.insert("repr".to_owned(), Value::String(r));
		}
		match res {
			Ok(text) => {
				out.insert("ok".to_owned(), Value::String(text));
			}
			Err(e) => {
				let resolver = match job.get("err_paths").and_then(Value::as_str) {
					Some("filename") => PathResolver::FileName,
					Some("cwd") => PathResolver::new_cwd_fallback(),
					_ => PathResolver::Absolute,
				};
				let detail = job.get("err_detail").and_then(Value::as_bool).unwrap_or(false);
				out.insert("err".to_owned(), err_value(&e, resolver, detail));
			}
		}
	}
	out.insert("traces".to_owned(), Value::Array(TRACES.with_borrow_mut(std::mem::take)));
	out.insert(
		"imports".to_owned(),
		Value::Array(IMPORT_LOG.with_borrow_mut(std::mem::take)),
	);
	out.insert("_gc".to_owned(), json!([want_gc, gc_before, pool_before]));
	Value::Object(out)
}

fn parse_one(code: &str, parser: &str, spans: bool) -> Value {
	let source = Source::new_virtual("<parse>".into(), code.into());
	let res: Result<jrsonnet_ir::Expr, (String, usize)> = match parser {
		"ir" => jrsonnet_ir_parser::parse(
			code,
			&jrsonnet_ir_parser::ParserSettings { source },
		)
		.map_err(|e| (e.message, e.location.offset)),
		"peg" => jrsonnet_peg_parser::parse(
			code,
			&jrsonnet_peg_parser::ParserSettings { source },
		)
		.map_err(|e| (format!("expected {}", e.expected), e.location.offset)),
		_ => panic!("harness: bad parser"),
	};
	match res {
		Ok(e) => {
			let mut d = dump::Dumper::new(spans);
			d.expr(&e);
			let mut v = json!({"tree": d.out});
			if spans {
				v["spans"] = Value::Array(
					d.spans
						.iter()
						.map(|s| json!([s.kind, s.start, s.end, s.hint]))
						.collect(),
				);
			}
			v
		}
		Err((msg, off)) => json!({"err": msg, "offset": off}),
	}
}

fn lex_tokens(code: &str) -> Value {
	Value::Array(
		jrsonnet_lexer::Lexer::new(code)
			.map(|l| json!([format!("{:?}", l.kind), l.range.0, l.range.1, l.text]))
			.collect(),
	)
}

fn rowan_info(code: &str) -> Value {
	let (file, errors) = jrsonnet_rowan_parser::parse(code);
	use jrsonnet_rowan_parser::AstNode;
	let text = file.syntax().to_string();
	json!({
		"errors": errors.len(),
		"lossless": text == code,
		"text": if text == code { Value::Null } else { Value::String(text) },
		"first_error": errors.first().map(|e| json!([format!("{:?}", e.error), u32::from(e.range.start()), u32::from(e.range.end())])),
	})
}

fn op_parse(job: &Map<String, Value>) -> Value {
	let code = job.get("code").and_then(Value::as_str).expect("code");
	let spans = job.get("spans").and_then(Value::as_bool).unwrap_or(false);
	let mut out = Map::new();
	out.insert("ir".to_owned(), parse_one(code, "ir", spans));
	out.insert("peg".to_owned(), parse_one(code, "peg", spans));
	out.insert("rowan".to_owned(), rowan_info(code));
	if job.get("lex").and_then(Value::as_bool).unwrap_or(false) {
		out.insert("tokens".to_owned(), lex_tokens(code));
	}
	Value::Object(out)
}

fn fnv(s: &str) -> u64 {
	let mut h: u64 = 0xcbf2_9ce4_8422_2325;
	for b in s.bytes() {
		h ^= u64::from(b);
		h = h.wrapping_mul(0x0100_0000_01b3);
	}
	h
}

/// Bulk monitor for short texts: for each text run both evaluator parsers, the
/// rowan parser, the lexer (tiling) and optionally the formatter; report a compact
/// verdict vector per text.  Disagreements are flagged here and re-examined with the
/// detailed ops by the parent.
fn op_bulk(job: &Map<String, Value>) -> Value {
	let texts = job.get("texts").and_then(Value::as_array).expect("texts");
	let do_fmt = job.get("fmt").and_then(Value::as_bool).unwrap_or(false);
	let mut res = Vec::with_capacity(texts.len());
	for t in texts {
		let code = t.as_str().expect("text");
		let ir = parse_one(code, "ir", false);
		let peg = parse_one(code, "peg", false);
		let ir_tree = ir.get("tree").and_then(Value::as_str);
		let peg_tree = peg.get("tree").and_then(Value::as_str);
		// the rowan parser keeps no thread-local state: a panic is caught per text
		let rowan = panic::catch_unwind(AssertUnwindSafe(|| {
			let (file, errors) = jrsonnet_rowan_parser::parse(code);
			use jrsonnet_rowan_parser::AstNode;
			(errors.len() as i64, file.syntax().to_string() == code)
		}));
		let mut rowan_panic = None;
		let (rowan_errors, lossless) = match rowan {
			Ok(v) => v,
			Err(_) => {
				let p = LAST_PANIC
					.lock()
					.unwrap_or_else(|e| e.into_inner())
					.take()
					.unwrap_or_default();
				rowan_panic = Some(json!({"msg": p.0, "site": p.1}));
				(-1, true)
			}
		};
		// lexer tiling
		let mut pos = 0u32;
		let mut tiling = true;
		for l in jrsonnet_lexer::Lexer::new(code) {
			if l.range.0 != pos
				|| l.range.1 < l.range.0
				|| code.get(l.range.0 as usize..l.range.1 as usize) != Some(l.text)
			{
				tiling = false;
			}
			pos = l.range.1;
		}
		if pos as usize != code.len() {
			tiling = false;
		}
		let mut rec = json!({
			"ir": ir_tree.is_some(),
			"peg": peg_tree.is_some(),
			"same": match (ir_tree, peg_tree) { (Some(a), Some(b)) => a == b, (None, None) => true, _ => false },
			"h": ir_tree.map(fnv),
			"rowan": rowan_errors,
			"tiling": tiling,
			"lossless": lossless,
		});
		if let Some(p) = rowan_panic {
			rec["rowan_panic"] = p;
		}
		if do_fmt {
			let mut f = Vec::new();
			for indent in [0u8, 2, 4] {
				// the formatter keeps no thread-local state, so a panic is caught per
				// text and reported without tearing the batch down
				let r = panic::catch_unwind(AssertUnwindSafe(|| {
					jrsonnet_formatter::format(
						code,
						&jrsonnet_formatter::FormatOptions { indent },
					)
					.is_ok()
				}));
				f.push(match r {
					Ok(true) => 1,
					Ok(false) => 0,
					Err(_) => {
						let p = LAST_PANIC
							.lock()
							.unwrap_or_else(|e| e.into_inner())
							.take()
							.unwrap_or_default();
						rec["fmt_panic"] = json!({"msg": p.0, "site": p.1});
						-1
					}
				});
			}
			rec["fmt"] = json!(f);
		}
		res.push(rec);
	}
	json!({ "res": res })
}

fn op_fmt(job: &Map<String, Value>) -> Value {
	let code = job.get("code").and_then(Value::as_str).expect("code");
	let indent = job.get("indent").and_then(Value::as_u64).unwrap_or(2) as u8;
	let passes = job.get("passes").and_then(Value::as_u64).unwrap_or(1);
	let mut outs = Vec::new();
	let mut cur = code.to_owned();
	for _ in 0..passes {
		match jrsonnet_formatter::format(&cur, &jrsonnet_formatter::FormatOptions { indent }) {
			Ok(t) => {
				outs.push(json!({"ok": t}));
				cur = t;
			}
			Err(_) => {
				outs.push(json!({"err": "diagnostic"}));
				break;
			}
		}
	}
	json!({ "passes": outs })
}

fn op_gauges() -> Value {
	jrsonnet_gcmodule::collect_thread_cycles();
	json!({
		"tracked": jrsonnet_gcmodule::count_thread_tracked(),
		"pool": jrsonnet_interner::verif::pool_len(),
	})
}

fn op_intern(job: &Map<String, Value>, pinned: &mut Vec<IStr>) -> Value {
	// pre-intern a pool of strings and keep them alive: moves every later IStr
	// address and therefore every address-keyed hash order (C16 histories)
	if job.get("clear").and_then(Value::as_bool).unwrap_or(false) {
		pinned.clear();
	}
	if let Some(a) = job.get("strings").and_then(Value::as_array) {
		for s in a {
			pinned.push(s.as_str().expect("string").into());
		}
	}
	json!({"pinned": pinned.len(), "pool": jrsonnet_interner::verif::pool_len()})
}

fn main() {
	panic::set_hook(Box::new(|info| {
		let msg = info
			.payload()
			.downcast_ref::<&str>()
			.map(|s| (*s).to_owned())
			.or_else(|| info.payload().downcast_ref::<String>().cloned())
			.unwrap_or_else(|| "<non-string panic>".to_owned());
		let loc = info
			.location()
			.map(|l| format!("{}:{}", l.file(), l.line()))
			.unwrap_or_default();
		*LAST_PANIC.lock().unwrap_or_else(|e| e.into_inner()) = Some((msg, loc));
	}));
	let stdin = std::io::stdin();
	let stdout = std::io::stdout();
	let mut states: HashMap<String, Bundle> = HashMap::new();
	let mut pinned: Vec<IStr> = Vec::new();
	let mut line = String::new();
	loop {
		line.clear();
		match stdin.lock().read_line(&mut line) {
			Ok(0) | Err(_) => break,
			Ok(_) => {}
		}
		if line.trim().is_empty() {
			continue;
		}
		let job: Value = serde_json::from_str(&line).expect("harness: job is not JSON");
		let job = job.as_object().expect("harness: job is not an object").clone();
		let op = job.get("op").and_then(Value::as_str).unwrap_or("eval").to_owned();
		let res = panic::catch_unwind(AssertUnwindSafe(|| match op.as_str() {
			"eval" => op_eval(&job, &mut states),
			"parse" => op_parse(&job),
			"bulk" => op_bulk(&job),
			"lex" => json!({"tokens": lex_tokens(job.get("code").and_then(Value::as_str).expect("code"))}),
			"fmt" => op_fmt(&job),
			"gauges" => op_gauges(),
			"intern" => op_intern(&job, &mut pinned),
			"drop_state" => {
				if let Some(id) = job.get("state_id").and_then(Value::as_str) {
					states.remove(id);
				}
				json!({})
			}
			"ping" => json!({"pong": true}),
			_ => json!({"harness_error": format!("unknown op {op}")}),
		}));
		let mut exit_after = false;
		let mut rec = match res {
			Ok(mut v) => {
				// GC gauge: taken after every handle created by the job has been dropped
				if let Some(gc) = v.get("_gc").cloned() {
					let m = v.as_object_mut().expect("object");
					m.remove("_gc");
					if gc[0].as_bool() == Some(true) {
						let collected = jrsonnet_gcmodule::collect_thread_cycles();
						m.insert(
							"gc".to_owned(),
							json!({
								"before": gc[1], "after": jrsonnet_gcmodule::count_thread_tracked(),
								"collected": collected,
								"pool_before": gc[2], "pool_after": jrsonnet_interner::verif::pool_len(),
							}),
						);
					}
				}
				v
			}
			Err(_) => {
				exit_after = true;
				let p = LAST_PANIC
					.lock()
					.unwrap_or_else(|e| e.into_inner())
					.take()
					.unwrap_or_default();
				json!({"panic": {"msg": p.0, "site": p.1}})
			}
		};
		if let Some(id) = job.get("id") {
			rec["id"] = id.clone();
		}
		let mut o = stdout.lock();
		serde_json::to_writer(&mut o, &rec).expect("write");
		o.write_all(b"\n").expect("write");
		o.flush().expect("flush");
		drop(o);
		if exit_after {
			std::process::exit(86);
		}
	}
}
