//! Structure dumper: an exhaustive `match` over `jrsonnet_ir::Expr` that renders a
//! canonical S-expression (positions dropped) and, separately, the list of every
//! source span in the tree together with the construct it labels.
//!
//! The S-expression grammar is mirrored by `mon/sexpr.py`, which renders the
//! generator's own AST the same way (C06 "intended tree" oracle).

use std::fmt::Write;

use jrsonnet_ir::{
	ArgsDesc, AssertStmt, BindSpec, CompSpec, Destruct, Expr, ExprParams, FieldMember, FieldName,
	ImportKind, LiteralType, ObjBody, Span, Visibility,
};

pub struct SpanRec {
	pub kind: &'static str,
	pub start: u32,
	pub end: u32,
	pub hint: String,
}

pub struct Dumper {
	pub out: String,
	pub spans: Vec<SpanRec>,
	pub collect_spans: bool,
}

fn jstr(s: &str) -> String {
	serde_json::to_string(s).expect("string serialises")
}

impl Dumper {
	pub fn new(collect_spans: bool) -> Self {
		Self {
			out: String::new(),
			spans: Vec::new(),
			collect_spans,
		}
	}
	fn span(&mut self, kind: &'static str, s: &Span, hint: &str) {
		if self.collect_spans {
			self.spans.push(SpanRec {
				kind,
				start: s.1,
				end: s.2,
				hint: hint.to_owned(),
			});
		}
	}
	fn destruct(&mut self, d: &Destruct) {
		match d {
			Destruct::Full(n) => {
				let _ = write!(self.out, "{n}");
			}
			#[cfg(feature = "exp")]
			Destruct::Skip => self.out.push('?'),
			#[cfg(feature = "exp")]
			Destruct::Array { start, rest, end } => {
				self.out.push_str("(darr (");
				for (i, s) in start.iter().enumerate() {
					if i != 0 {
						self.out.push(' ');
					}
					self.destruct(s);
				}
				self.out.push_str(") ");
				self.rest(rest);
				self.out.push_str(" (");
				for (i, s) in end.iter().enumerate() {
					if i != 0 {
						self.out.push(' ');
					}
					self.destruct(s);
				}
				self.out.push_str("))");
			}
			#[cfg(feature = "exp")]
			Destruct::Object { fields, rest } => {
				self.out.push_str("(dobj");
				for (name, into, default) in fields {
					let _ = write!(self.out, " ({name} ");
					match into {
						Some(d) => self.destruct(d),
						None => self.out.push('_'),
					}
					self.out.push(' ');
					match default {
						Some(e) => {
							self.span("DestructDefault", &e.span, "");
							self.expr(&e.value);
						}
						None => self.out.push('_'),
					}
					self.out.push(')');
				}
				self.out.push(' ');
				self.rest(rest);
				self.out.push(')');
			}
		}
	}
	#[cfg(feature = "exp")]
	fn rest(&mut self, r: &Option<jrsonnet_ir::DestructRest>) {
		match r {
			None => self.out.push('_'),
			Some(jrsonnet_ir::DestructRest::Drop) => self.out.push_str("..."),
			Some(jrsonnet_ir::DestructRest::Keep(n)) => {
				let _ = write!(self.out, "...{n}");
			}
		}
	}
	fn params(&mut self, p: &ExprParams) {
		self.out.push_str("(params");
		for p in p.exprs.iter() {
			self.out.push_str(" (p ");
			self.destruct(&p.destruct);
			if let Some(d) = &p.default {
				self.out.push(' ');
				self.expr(d);
			}
			self.out.push(')');
		}
		self.out.push(')');
	}
	fn bind(&mut self, b: &BindSpec) {
		match b {
			BindSpec::Field { into, value } => {
				self.out.push_str("(bind ");
				self.destruct(into);
				self.out.push(' ');
				self.expr(value);
				self.out.push(')');
			}
			BindSpec::Function {
				name,
				params,
				value,
			} => {
				let _ = write!(self.out, "(bindfn {name} ");
				self.params(params);
				self.out.push(' ');
				self.expr(value);
				self.out.push(')');
			}
		}
	}
	fn assert(&mut self, a: &AssertStmt) {
		self.out.push_str("(assert ");
		self.span("AssertCond", &a.0.span, "");
		self.expr(&a.0.value);
		if let Some(m) = &a.1 {
			self.out.push(' ');
			self.span("AssertMsg", &m.span, "");
			self.expr(&m.value);
		}
		self.out.push(')');
	}
	fn field(&mut self, f: &FieldMember) {
		self.out.push_str("(field ");
		match &f.name.value {
			FieldName::Fixed(n) => {
				self.span("FieldNameFixed", &f.name.span, n);
				let _ = write!(self.out, "(fixed {})", jstr(n));
			}
			FieldName::Dyn(e) => {
				self.span("FieldNameDyn", &f.name.span, "");
				self.out.push_str("(dyn ");
				self.expr(e);
				self.out.push(')');
			}
		}
		self.out.push_str(if f.plus { " + " } else { " - " });
		self.out.push_str(match f.visibility {
			Visibility::Normal => ":",
			Visibility::Hidden => "::",
			Visibility::Unhide => ":::",
		});
		self.out.push(' ');
		match &f.params {
			Some(p) => self.params(p),
			None => self.out.push_str("noparams"),
		}
		self.out.push(' ');
		self.expr(&f.value);
		self.out.push(')');
	}
	fn compspecs(&mut self, specs: &[CompSpec]) {
		for s in specs {
			match s {
				CompSpec::IfSpec(i) => {
					self.span("CompIf", &i.span, "");
					self.out.push_str(" (if ");
					self.expr(&i.cond);
					self.out.push(')');
				}
				CompSpec::ForSpec(f) => {
					self.out.push_str(" (for ");
					self.destruct(&f.destruct);
					self.out.push(' ');
					self.expr(&f.over);
					self.out.push(')');
				}
			}
		}
	}
	fn body(&mut self, b: &ObjBody) {
		match b {
			ObjBody::MemberList(m) => {
				self.out.push_str("(members (locals");
				for l in m.locals.iter() {
					self.out.push(' ');
					self.bind(l);
				}
				self.out.push_str(") (asserts");
				for a in m.asserts.iter() {
					self.out.push(' ');
					self.assert(a);
				}
				self.out.push_str(") (fields");
				for f in &m.fields {
					self.out.push(' ');
					self.field(f);
				}
				self.out.push_str("))");
			}
			ObjBody::ObjComp(c) => {
				self.out.push_str("(objcomp (locals");
				for l in c.locals.iter() {
					self.out.push(' ');
					self.bind(l);
				}
				self.out.push_str(") ");
				self.field(&c.field);
				self.compspecs(&c.compspecs);
				self.out.push(')');
			}
		}
	}
	fn args(&mut self, a: &ArgsDesc) {
		self.out.push_str("(args");
		for u in &a.unnamed {
			self.out.push(' ');
			self.expr(u);
		}
		self.out.push_str(") (named");
		for (n, e) in &a.named {
			let _ = write!(self.out, " ({n} ");
			self.expr(e);
			self.out.push(')');
		}
		self.out.push(')');
	}
	pub fn expr(&mut self, e: &Expr) {
		match e {
			Expr::Literal(l) => self.out.push_str(match l {
				LiteralType::This => "self",
				LiteralType::Super => "super",
				LiteralType::Dollar => "$",
				LiteralType::Null => "null",
				LiteralType::True => "true",
				LiteralType::False => "false",
			}),
			Expr::Str(s) => {
				let _ = write!(self.out, "(s {})", jstr(s));
			}
			Expr::Num(n) => {
				let _ = write!(self.out, "(n {:016x})", n.to_bits());
			}
			Expr::Var(v) => {
				self.span("Var", &v.span, &v.value);
				let _ = write!(self.out, "(v {})", v.value);
			}
			Expr::Arr(items) => {
				self.out.push_str("(arr");
				for i in items.iter() {
					self.out.push(' ');
					self.expr(i);
				}
				self.out.push(')');
			}
			Expr::ArrComp(e, specs) => {
				self.out.push_str("(arrcomp ");
				self.expr(e);
				self.compspecs(specs);
				self.out.push(')');
			}
			Expr::Obj(b) => {
				self.out.push_str("(obj ");
				self.body(b);
				self.out.push(')');
			}
			Expr::ObjExtend(e, b) => {
				self.out.push_str("(objext ");
				self.expr(e);
				self.out.push(' ');
				self.body(b);
				self.out.push(')');
			}
			Expr::UnaryOp(op, e) => {
				let _ = write!(self.out, "(u {op} ");
				self.expr(e);
				self.out.push(')');
			}
			Expr::BinaryOp(b) => {
				let _ = write!(self.out, "(b {} ", b.op);
				self.expr(&b.lhs);
				self.out.push(' ');
				self.expr(&b.rhs);
				self.out.push(')');
			}
			Expr::AssertExpr(a) => {
				self.out.push_str("(assertexpr ");
				self.assert(&a.assert);
				self.out.push(' ');
				self.expr(&a.rest);
				self.out.push(')');
			}
			Expr::LocalExpr(binds, body) => {
				self.out.push_str("(local (");
				for (i, b) in binds.iter().enumerate() {
					if i != 0 {
						self.out.push(' ');
					}
					self.bind(b);
				}
				self.out.push_str(") ");
				self.expr(body);
				self.out.push(')');
			}
			Expr::Import(kind, e) => {
				self.span("ImportKw", &kind.span, "");
				self.out.push_str(match kind.value {
					ImportKind::Normal => "(import ",
					ImportKind::Str => "(importstr ",
					ImportKind::Bin => "(importbin ",
				});
				self.expr(e);
				self.out.push(')');
			}
			Expr::ErrorStmt(span, e) => {
				self.span("ErrorStmt", span, "");
				self.out.push_str("(error ");
				self.expr(e);
				self.out.push(')');
			}
			Expr::Apply(f, args, tailstrict) => {
				self.span("ApplyArgs", &args.span, "");
				self.out.push_str("(apply ");
				self.expr(f);
				self.out.push(' ');
				self.args(&args.value);
				if *tailstrict {
					self.out.push_str(" tailstrict");
				}
				self.out.push(')');
			}
			Expr::Index { indexable, parts } => {
				// (a.b).c and a.b.c denote the same tree: chains are flattened
				let mut chain: Vec<&Vec<jrsonnet_ir::IndexPart>> = vec![parts];
				let mut base: &Expr = indexable;
				while let Expr::Index { indexable, parts } = base {
					chain.push(parts);
					base = indexable;
				}
				self.out.push_str("(index ");
				self.expr(base);
				for p in chain.into_iter().rev().flatten() {
					self.span("IndexPart", &p.span, "");
					#[cfg(feature = "exp")]
					self.out
						.push_str(if p.null_coaelse { " (qpart " } else { " (part " });
					#[cfg(not(feature = "exp"))]
					self.out.push_str(" (part ");
					self.expr(&p.value);
					self.out.push(')');
				}
				self.out.push(')');
			}
			Expr::Function(p, body) => {
				self.out.push_str("(fn ");
				self.params(p);
				self.out.push(' ');
				self.expr(body);
				self.out.push(')');
			}
			Expr::IfElse(i) => {
				self.span("IfCond", &i.cond.span, "");
				self.out.push_str("(if ");
				self.expr(&i.cond.cond);
				self.out.push(' ');
				self.expr(&i.cond_then);
				if let Some(e) = &i.cond_else {
					self.out.push(' ');
					self.expr(e);
				}
				self.out.push(')');
			}
			Expr::Slice(s) => {
				self.out.push_str("(slice ");
				self.expr(&s.value);
				for (kind, part) in [
					("SliceStart", &s.slice.start),
					("SliceEnd", &s.slice.end),
					("SliceStep", &s.slice.step),
				] {
					self.out.push(' ');
					match part {
						Some(p) => {
							self.span(kind, &p.span, "");
							self.expr(&p.value);
						}
						None => self.out.push('_'),
					}
				}
				self.out.push(')');
			}
		}
	}
}
