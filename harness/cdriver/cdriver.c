/* Driver for the libjsonnet C interface (bindings/c/libjsonnet.h).
 *
 * Reads a script (argv[1]), one command per line: `op hexarg hexarg ...` (an empty argument is
 * `-`), executes it against one JsonnetVm and prints for every evaluation
 *     RESULT <error flag> <hex of the returned bytes>
 * For *_multi / *_stream the returned bytes are everything up to and including the double NUL.
 * Import callback and native callbacks are implemented here, in C, the way an embedder would.
 */
#include <stdio.h>
#include <stdlib.h>
#include <string.h>
#include "libjsonnet.h"

static struct JsonnetVm *vm;

static char *unhex(const char *h) {
	if (strcmp(h, "-") == 0) return strdup("");
	size_t n = strlen(h) / 2;
	char *out = malloc(n + 1);
	for (size_t i = 0; i < n; i++) {
		unsigned v;
		sscanf(h + 2 * i, "%2x", &v);
		out[i] = (char)v;
	}
	out[n] = 0;
	return out;
}

static void print_hex(const char *tag, int err, const char *buf, size_t len) {
	printf("%s %d ", tag, err);
	if (len == 0) printf("-");
	for (size_t i = 0; i < len; i++) printf("%02x", (unsigned char)buf[i]);
	printf("\n");
	fflush(stdout);
}

static size_t framed_len(const char *buf) {
	/* length of a sequence of NUL-terminated strings ended by an empty string */
	size_t i = 0;
	if (buf[0] == 0 && buf[1] == 0) return 2;
	for (;;) {
		if (buf[i] == 0 && buf[i + 1] == 0) return i + 2;
		i++;
	}
}

/* ---- import callback: resolves `rel` against `base`, then against the extra search dirs */
#define MAX_DIRS 8
static char *cb_dirs[MAX_DIRS];
static int cb_ndirs = 0;
static int cb_calls = 0;

static char *vm_strdup(const char *s, size_t n) {
	char *out = jsonnet_realloc(vm, NULL, n + 1);
	memcpy(out, s, n);
	out[n] = 0;
	return out;
}

static int import_cb(void *ctx, const char *base, const char *rel, char **found_here, char **buf, size_t *buflen) {
	(void)ctx;
	cb_calls++;
	char path[4096];
	for (int attempt = -1; attempt < cb_ndirs; attempt++) {
		if (rel[0] == '/') snprintf(path, sizeof path, "%s", rel);
		else snprintf(path, sizeof path, "%s/%s", attempt < 0 ? base : cb_dirs[attempt], rel);
		FILE *f = fopen(path, "rb");
		if (!f) continue;
		long n;
		char *data;
		if (cb_calls % 2) {
			/* whole file into one exactly sized buffer */
			fseek(f, 0, SEEK_END);
			n = ftell(f);
			fseek(f, 0, SEEK_SET);
			data = jsonnet_realloc(vm, NULL, n > 0 ? n : 1);
			if (n > 0 && fread(data, 1, n, f) != (size_t)n) { fclose(f); continue; }
		} else {
			/* in small chunks, growing the buffer with jsonnet_realloc as libjsonnet.h allows */
			char chunk[7];
			size_t r;
			n = 0;
			data = NULL;
			while ((r = fread(chunk, 1, sizeof chunk, f)) > 0) {
				data = jsonnet_realloc(vm, data, n + r);
				memcpy(data + n, chunk, r);
				n += r;
			}
			if (!data) data = jsonnet_realloc(vm, NULL, 1);
		}
		fclose(f);
		*buf = data;
		*buflen = n;
		*found_here = vm_strdup(path, strlen(path));
		return 0;   /* success (libjsonnet.h: 0 = success, 1 = failure with the message in *buf) */
	}
	const char *msg = "cdriver: file not found";
	*buf = vm_strdup(msg, strlen(msg));
	*buflen = strlen(msg);
	return 1;
}

/* ---- native callbacks */
static struct JsonnetJsonValue *copy_value(const struct JsonnetJsonValue *v) {
	const char *s = jsonnet_json_extract_string(vm, v);
	if (s) return jsonnet_json_make_string(vm, s);
	double d;
	if (jsonnet_json_extract_number(vm, v, &d)) return jsonnet_json_make_number(vm, d);
	int b = jsonnet_json_extract_bool(vm, v);
	if (b == 0 || b == 1) return jsonnet_json_make_bool(vm, b);
	if (jsonnet_json_extract_null(vm, v)) return jsonnet_json_make_null(vm);
	return jsonnet_json_make_string(vm, "<complex>");
}

struct native_ctx { int nparams; int mode; };

static struct JsonnetJsonValue *native_cb(void *ctx, const struct JsonnetJsonValue *const *argv, int *success) {
	struct native_ctx *c = ctx;
	*success = 1;
	if (c->mode == 0) {            /* echo: array of the arguments */
		struct JsonnetJsonValue *arr = jsonnet_json_make_array(vm);
		for (int i = 0; i < c->nparams; i++) jsonnet_json_array_append(vm, arr, copy_value(argv[i]));
		return arr;
	}
	if (c->mode == 1) {            /* sum of numeric arguments, error if one is not a number */
		double sum = 0, d;
		for (int i = 0; i < c->nparams; i++) {
			if (!jsonnet_json_extract_number(vm, argv[i], &d)) {
				*success = 0;
				return jsonnet_json_make_string(vm, "cdriver: not a number");
			}
			sum += d;
		}
		return jsonnet_json_make_number(vm, sum);
	}
	/* mode 2: object {n: nparams, first: arg0-or-null, nested: [true, null, "s"]} */
	struct JsonnetJsonValue *obj = jsonnet_json_make_object(vm);
	jsonnet_json_object_append(vm, obj, "n", jsonnet_json_make_number(vm, c->nparams));
	jsonnet_json_object_append(vm, obj, "first", c->nparams ? copy_value(argv[0]) : jsonnet_json_make_null(vm));
	struct JsonnetJsonValue *arr = jsonnet_json_make_array(vm);
	jsonnet_json_array_append(vm, arr, jsonnet_json_make_bool(vm, 1));
	jsonnet_json_array_append(vm, arr, jsonnet_json_make_null(vm));
	jsonnet_json_array_append(vm, arr, jsonnet_json_make_string(vm, "s"));
	jsonnet_json_object_append(vm, obj, "nested", arr);
	return obj;
}

/* the default feature set of the library (interop-wasm) expects the embedder to provide these */
int _jrsonnet_static_import_callback(void *ctx, const char *base, const char *rel, char **found_here, char **buf, size_t *buflen) {
	return import_cb(ctx, base, rel, found_here, buf, buflen);
}
struct JsonnetJsonValue *_jrsonnet_static_native_callback(void *ctx, const struct JsonnetJsonValue *const *argv, int *success) {
	return native_cb(ctx, argv, success);
}

int main(int argc, char **argv) {
	if (argc < 2) return 2;
	FILE *f = fopen(argv[1], "r");
	if (!f) return 2;
	vm = jsonnet_make();
	static char line[1 << 22];
	while (fgets(line, sizeof line, f)) {
		char *tok[8];
		int nt = 0;
		for (char *p = strtok(line, " \n"); p && nt < 8; p = strtok(NULL, " \n")) tok[nt++] = p;
		if (nt == 0) continue;
		const char *op = tok[0];
		char *a = nt > 1 ? unhex(tok[1]) : NULL, *b = nt > 2 ? unhex(tok[2]) : NULL;
		int err = -1;
		if (!strcmp(op, "version")) { const char *v = jsonnet_version(); print_hex("VERSION", 0, v, strlen(v)); }
		else if (!strcmp(op, "max_stack")) jsonnet_max_stack(vm, (unsigned)atoi(a));
		else if (!strcmp(op, "max_trace")) jsonnet_max_trace(vm, (unsigned)atoi(a));
		else if (!strcmp(op, "string_output")) jsonnet_string_output(vm, atoi(a));
		else if (!strcmp(op, "ext_var")) jsonnet_ext_var(vm, a, b);
		else if (!strcmp(op, "ext_code")) jsonnet_ext_code(vm, a, b);
		else if (!strcmp(op, "tla_var")) jsonnet_tla_var(vm, a, b);
		else if (!strcmp(op, "tla_code")) jsonnet_tla_code(vm, a, b);
		else if (!strcmp(op, "jpath")) jsonnet_jpath_add(vm, a);
		else if (!strcmp(op, "import_cb")) jsonnet_import_callback(vm, import_cb, NULL);
		else if (!strcmp(op, "cb_dir")) { if (cb_ndirs < MAX_DIRS) cb_dirs[cb_ndirs++] = strdup(a); }
		else if (!strcmp(op, "native")) {
			/* native <name> <nparams> <mode> */
			struct native_ctx *c = malloc(sizeof *c);
			c->nparams = atoi(b);
			char *m = nt > 3 ? unhex(tok[3]) : strdup("0");
			c->mode = atoi(m);
			free(m);
			const char **params = calloc(c->nparams + 1, sizeof *params);
			for (int i = 0; i < c->nparams; i++) { char *pn = malloc(16); snprintf(pn, 16, "p%d", i); params[i] = pn; }
			jsonnet_native_callback(vm, a, native_cb, c, params);
		}
		else if (!strcmp(op, "eval_snippet")) { char *r = jsonnet_evaluate_snippet(vm, a, b, &err); print_hex("RESULT", err, r, strlen(r)); jsonnet_realloc(vm, r, 0); }
		else if (!strcmp(op, "eval_file")) { char *r = jsonnet_evaluate_file(vm, a, &err); print_hex("RESULT", err, r, strlen(r)); jsonnet_realloc(vm, r, 0); }
		else if (!strcmp(op, "eval_snippet_multi")) { char *r = jsonnet_evaluate_snippet_multi(vm, a, b, &err); print_hex("RESULT", err, r, err ? strlen(r) : framed_len(r)); jsonnet_realloc(vm, r, 0); }
		else if (!strcmp(op, "eval_file_multi")) { char *r = jsonnet_evaluate_file_multi(vm, a, &err); print_hex("RESULT", err, r, err ? strlen(r) : framed_len(r)); jsonnet_realloc(vm, r, 0); }
		else if (!strcmp(op, "eval_snippet_stream")) { char *r = jsonnet_evaluate_snippet_stream(vm, a, b, &err); print_hex("RESULT", err, r, err ? strlen(r) : framed_len(r)); jsonnet_realloc(vm, r, 0); }
		else if (!strcmp(op, "eval_file_stream")) { char *r = jsonnet_evaluate_file_stream(vm, a, &err); print_hex("RESULT", err, r, err ? strlen(r) : framed_len(r)); jsonnet_realloc(vm, r, 0); }
		else { fprintf(stderr, "cdriver: unknown op %s\n", op); return 2; }
		free(a);
		free(b);
	}
	printf("CBCALLS %d\n", cb_calls);
	jsonnet_destroy(vm);
	printf("DONE\n");
	return 0;
}
