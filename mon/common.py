"""Helpers shared by property modules: rendering Python values as Jsonnet source,
classifying worker records, strict JSON reading."""
import json
import math
import struct


def jnum(x):
    """Exact Jsonnet source for a double (Python repr is shortest round-trip decimal and
    matches the Jsonnet number grammar; sign handled by unary minus)."""
    x = float(x)
    assert math.isfinite(x)
    if x == 0:
        return "(-0)" if math.copysign(1.0, x) < 0 else "0"
    r = repr(abs(x))
    if r.endswith(".0"):
        r = r[:-2]
    return "(-%s)" % r if x < 0 else r


_ESC = {'"': '\\"', "\\": "\\\\", "\n": "\\n", "\r": "\\r", "\t": "\\t", "\b": "\\b", "\f": "\\f"}


def jstr(s):
    """Jsonnet double-quoted literal; non-ASCII emitted raw, controls as \\uXXXX."""
    out = ['"']
    for ch in s:
        if ch in _ESC:
            out.append(_ESC[ch])
        elif ord(ch) < 0x20 or ord(ch) == 0x7f:
            out.append("\\u%04x" % ord(ch))
        else:
            out.append(ch)
    out.append('"')
    return "".join(out)


def jval(v):
    """Python JSON-like value -> Jsonnet literal source."""
    if v is None:
        return "null"
    if v is True:
        return "true"
    if v is False:
        return "false"
    if isinstance(v, (int, float)):
        return jnum(v)
    if isinstance(v, str):
        return jstr(v)
    if isinstance(v, (list, tuple)):
        return "[" + ", ".join(jval(x) for x in v) + "]"
    if isinstance(v, dict):
        return "{" + ", ".join("%s: %s" % (jstr(k), jval(x)) for k, x in v.items()) + "}"
    raise TypeError(type(v))


def bits(x):
    return struct.unpack(">Q", struct.pack(">d", float(x)))[0]


def same_double(a, b):
    """bit-for-bit equality of doubles, except that 0 and -0 are told apart only when asked"""
    return bits(a) == bits(b)


class DupKey(Exception):
    pass


def _no_const(c):
    raise ValueError("non-finite token " + c)


def _pairs_nodup(pairs):
    d = {}
    for k, v in pairs:
        if k in d:
            raise DupKey(k)
        d[k] = v
    return d


def strict_json(text, floats=True):
    """Independent strict JSON reader: rejects NaN/Infinity and duplicate keys; all
    numbers become doubles."""
    return json.loads(text, parse_constant=_no_const, object_pairs_hook=_pairs_nodup,
                      parse_int=float if floats else None)


def outcome(rec):
    """Classify a worker record -> (class, payload)
    class: ok | err | panic | crash | timeout | harness"""
    if "ok" in rec:
        return "ok", rec["ok"]
    if "err" in rec:
        return "err", rec["err"]
    if "panic" in rec:
        return "panic", rec["panic"]
    if "crash" in rec:
        return "crash", rec["crash"]
    if "timeout" in rec:
        return "timeout", None
    return "harness", rec


def panic_sig(p):
    """Signature of a panic: file (no line number) + message class (digits collapsed)."""
    import re
    site = p.get("site", "")
    f = site.rsplit(":", 1)[0]
    for marker in ("/crates/", "/registry/src/", "/rustlib/src/rust/"):
        if marker in f:
            f = f.split(marker, 1)[1]
            if marker == "/registry/src/":
                f = f.split("/", 1)[1]
            break
    msg = re.sub(r"-?\d+(\.\d+)?(e[+-]?\d+)?", "N", p.get("msg", ""))[:120]
    return f, msg


def deep_equal(a, b):
    """Structural equality of JSON-like values with numbers compared as doubles
    (-0 == 0 here; use same_double where the sign matters)."""
    if isinstance(a, bool) or isinstance(b, bool):
        return a is b
    if isinstance(a, (int, float)) and isinstance(b, (int, float)):
        return float(a) == float(b)
    if type(a) is not type(b):
        return False
    if isinstance(a, list):
        return len(a) == len(b) and all(deep_equal(x, y) for x, y in zip(a, b))
    if isinstance(a, dict):
        return a.keys() == b.keys() and all(deep_equal(a[k], b[k]) for k in a)
    return a == b
