"""Generates MANIFEST.json from the table below (python3 -m mon.manifest_gen)."""
import json
import os

VERIF = os.path.dirname(os.path.dirname(os.path.abspath(__file__)))

CHECKS = {}


def check(pid, category, text, note, technique, ref):
    CHECKS[pid] = {
        "property_id": pid,
        "quick_cmd": "./check %s --tier quick" % pid,
        "thorough_cmd": "./check %s --tier thorough" % pid,
        "evidence_file": "/verif/evidence/%s.json" % pid,
        "replay_cmd_template": "./check %s --replay {path}" % pid,
        "engine": "jv-worker+python-monitors",
        "level_claimed": {"category": category, "text": text, "design_ref": ref},
        "level_note": note,
        "technique": technique,
    }


check("C09", "exploration",
      "Runs the real evaluator on every ordered pair of a boundary-dense set of doubles under every "
      "numeric operator / std math function and compares each observed result with Python IEEE "
      "arithmetic and the platform libm (ctypes); exhaustive over that finite set. A seeded dense part adds random "
      "doubles over the whole exponent range under every operator / function and an integer base x exponent grid for "
      "std.pow; sorts / comparisons of the boundary set are replayed under ASan and Miri (unchecked unwrap in the "
      "number ordering). Says nothing about doubles outside what was run.",
      "Trusts CPython float arithmetic, the platform libm and the JSON number round-trip of the "
      "manifest output; build = harness `rel` profile of the working tree.",
      "runtime monitoring: differential oracle (libm/IEEE reference) over exhaustive boundary pairs + seeded dense sample; Miri / ASan on the ordering code",
      "DESIGN.md §3 C09")

check("C08", "exploration",
      "Composes view-producing array operations (slices with every start/end/step shape, reverse, "
      "repeat, concat, map, filter, ...) over small bases and across the 1000-element threshold, "
      "and compares length, every in-range element, every out-of-range index from -2 to len+2, "
      "equality/ordering/iteration/std functions and manifestation observed on the real evaluator "
      "(rel and chk builds) with a Python list built alongside; records which internal "
      "representations were actually exercised; steps up to the documented bound 2^31 - 1 in composed slices, and 49 library "
      "consumers (incl. membership / count / find probes with values that are not elements) applied to the view and to the "
      "plainly written array must agree.",
      "Python list semantics as the model of a plainly constructed array; representation names are "
      "read from the Debug output of the array value (no hook).",
      "runtime monitoring: model-based differential oracle (Python list) over generated view compositions, rel + overflow-checked builds",
      "DESIGN.md §3 C08")

check("C04", "exploration",
      "Drives the real parser/evaluator/stdlib with hostile workloads (every std function listed at "
      "run time x boundary argument tuples, random/mutated source text, recursion across the frame "
      "limit in 7 shapes x 4 limits, 24 runaway-recursion shapes, self-dependent values and self-referring "
      "lazily built arrays, external-variable / top-level-argument configurations, syntactic "
      "nesting sweep) on the rel and overflow-checked builds while a panic hook, the worker exit "
      "status and same-thread sentinel evaluations (which probe the exact frame budget of a fresh thread after errors) "
      "are monitored; held = no panic/abort/stack "
      "overflow on any observed execution; a sample of the jobs is then replayed under AddressSanitizer, valgrind memcheck "
      "and (thorough) Miri, where a report or death by signal is a violation.",
      "Allocation-failure aborts under RLIMIT_AS (8 GiB; 2 GiB for runaway jobs) are classed "
      "`resource`, watchdog expiry is inconclusive; both are counted in evidence, not as verdicts. "
      "Says nothing about inputs outside the generated pools.",
      "runtime monitoring: panic hook + exit-status monitor + sentinel histories under stress/fuzz workloads on rel and overflow-checked builds; ASan / memcheck / Miri replay of a job sample",
      "DESIGN.md §3 C04")

check("C06", "exploration",
      "Feeds every token sequence up to length 4 (quick) / 5 (thorough) over a 33-token alphabet, "
      "random longer sequences, character-level mutants of valid programs and hostile raw texts "
      "to the real default parser, legacy parser and syntax-tree parser; compares accept/reject, "
      "canonical trees (spans dropped) and the syntax-tree parser's error count. Every "
      "disagreement is delta-debugged to a minimal core and classified by what the real lexer / "
      "parser report about that core; 23 genuine disagreement classes are recorded as known "
      "findings, anything else is a violation.",
      "Exhaustive only for the stated token-sequence bound; the intended-tree oracle (generator "
      "AST vs parser tree) is exercised through C01's generated programs.",
      "runtime monitoring: differential oracle across three parsers over exhaustive token sequences + delta-debugging classifier",
      "DESIGN.md §3 C06")

check("C17", "exploration",
      "Runs the real lexer, syntax-tree parser and both evaluator parsers over every token sequence "
      "up to length 4/5, random sequences, mutants and hostile raw texts and checks that tokens tile "
      "the input and the tree reproduces it byte for byte; checks every span of the parsed corpus "
      "(bounds, character boundaries, covered text) and evaluates programs with an error / assert / "
      "undefined variable / missing field / std.trace / stray token planted at a known line and "
      "column behind ASCII, multi-byte and CRLF padding, comparing the rendered location.",
      "Column compared only when the text before the construct on its line is ASCII (as the property "
      "states); the first location of the rendered trace is taken as the innermost frame.",
      "runtime monitoring: structural invariants on lexer/parser output + planted-position oracle on rendered traces",
      "DESIGN.md §3 C17")
check("C19", "exploration",
      "Formats every short token sequence the default parser accepts, a corpus of hand-written "
      "programs covering the constructs named by the property, near-100-column programs and "
      "comment-decorated variants with the real formatter (3 indents), re-parses the output with the "
      "evaluator's parser and compares canonical trees (modulo the two documented sugar pairs), "
      "comment token sequences from the real lexer and evaluation outcomes; failures are "
      "delta-debugged to a minimal program and classified. A separate corpus with comments only at the positions "
      "the formatter supports (before / after an item, end of a list) is judged under its own oracle name, so the "
      "broad comment findings cannot mask a comment lost or moved there.",
      "A diagnostic from the formatter is always accepted. Known findings cover the prototype "
      "formatter's comment handling (dropped / swallowing comments at other positions, re-spacing of `#x`).",
      "runtime monitoring: round-trip oracle (format -> reparse -> compare tree, comments, evaluation) with delta debugging",
      "DESIGN.md §3 C19")
check("C20", "exploration",
      "Pushes every token sequence up to length 4/5, random sequences, mutants and hostile texts "
      "through format() on the rel and debug-assertion builds under a panic monitor; formats every "
      "accepted program three times per indent setting and requires pass 2 == pass 1; formats each corpus program under two "
      "settings back to back and in the reverse order after another text (the rendering must not depend on that history); runs "
      "jrsonnet-fmt then jrsonnet-fmt --test on the corpus.",
      "Known findings cover unstable comment placement; says nothing about programs outside the "
      "generated corpus.",
      "runtime monitoring: panic monitor + fixed-point oracle over exhaustive short inputs and generated programs",
      "DESIGN.md §3 C20")

check("C01", "exploration",
      "Evaluates exhaustive operator/operand-kind, index/slice, call-shape and operator-precedence "
      "tables plus random type-directed programs with the real evaluator under both parsers, minimal "
      "and full parenthesisation and five embedding positions (snippet, imported file, import "
      "expression, ext-code variable, TLA function body) and compares value / error-ness with a "
      "reference evaluator written from the specification that runs on the generator's AST; 400 inheritance "
      "chains that apply the same object value twice are part of the table, and so are 547 programs over strings held as ropes "
      "(concatenations of >= 100 bytes, associated differently; equal, differing in one character, prefix of each other, ASCII "
      "and not) under every comparison, concatenation, index, slice, key lookup and length. Experimental-syntax clause: ~1000 "
      "(sugared, documented desugaring) program pairs are run on a worker built with exp-destruct, "
      "exp-null-coaelse and exp-object-iteration and must agree; the desugared program must also give the same "
      "outcome on the standard build.",
      "Trusts mon/ref/interp.py as the semantics (self-validated by agreement with the real evaluator "
      "on > 99.9% of generated programs; every disagreement was classified by hand); the reference "
      "abstains where the documentation does not pin the outcome. Error text is never compared.",
      "runtime monitoring: differential oracle (independent reference interpreter) + metamorphic relations across parsers / embeddings / sugar-vs-desugaring on the experimental build",
      "DESIGN.md §3 C01")
check("C03", "exploration",
      "Wraps every sub-expression of generated programs in std.trace with a distinct label, plants "
      "error / failing-assert / divergence bombs in positions the reference evaluator marks unneeded, "
      "collects the trace events through a TracePrinter installed in the worker and checks outcome == "
      "reference and observed label count <= the reference's call-by-need bound (memo per local, "
      "argument, array element, and object field per access path); plus hand-built sharing shapes (incl. one object "
      "literal with locals as a layer of up to 300 objects whose fields are read between two reads of the first one) and "
      "lazy-vs-tailstrict pairs.",
      "Label counts are compared only when the outcome is a value; evaluating less than the bound is "
      "never a violation.",
      "runtime monitoring: trace-event monitor (TracePrinter hook) checked against a call-by-need reference bound",
      "DESIGN.md §3 C03")

check("C02", "exploration",
      "Enumerates every 1- and 2-layer inheritance chain over names {a,b} and 13 member kinds per name "
      "(exhaustive), sampled / reduced-exhaustive 3-layer and random deeper chains, composed by `+` and "
      "`base {..}` with std.objectRemoveKey and object asserts at varying positions, and compares 8 "
      "probes per chain (visible/all field lists, objectHas/objectHasAll/in for present and absent names, "
      "each field read, manifestation, equality with a rebuilt copy, several reads in one program) "
      "observed on the real evaluator with the reference object model.",
      "The reference object model (layers, lookup from a start index, visibility merge, +: folding, "
      "assert-on-first-index) is the trusted base; error text is not compared.",
      "runtime monitoring: differential oracle (reference object model) over exhaustive small inheritance chains",
      "DESIGN.md §3 C02")

check("C05", "exploration",
      "Builds JSON-like values (strings covering every Unicode scalar below U+0800 in quick / all 1.1M in "
      "thorough, doubles across the whole exponent range with 1-ulp neighbours and -0, hostile keys, deep "
      "and wide nesting, lazily built arrays, inherited objects with hidden and ::: fields), pushes each "
      "through 4 library formats, std.manifestJson / Ex (9 indent/newline/separator variants) / Minified, "
      "std.toString, both string concatenations, parseJson round trips and the CLI, and requires Python's "
      "strict JSON reader to accept every text and read back the bit-identical value with keys ascending; "
      "values containing functions must be rejected on every path. Jobs directed at the unsafe byte view of the "
      "string escaper (every ASCII byte class next to multi-byte sequences) and a sample of the workload are "
      "replayed under AddressSanitizer, valgrind memcheck and Miri.",
      "Trusts CPython's json module (with NaN/Infinity and duplicate-key guards) and float() rounding.",
      "runtime monitoring: independent-parser round-trip oracle over boundary-dense values on every JSON-producing path; ASan / memcheck / Miri on the escape writer",
      "DESIGN.md §3 C05")

check("C07", "fault_enumeration",
      "Enumerates import graphs over 3 files (every edge none/strict/lazy) laid out over the importer "
      "directory and two library directories with shadowing copies, import kinds and six path spellings "
      "(incl. symlink chains), runs each through a recording / fault-injecting ImportResolver wrapper "
      "around the real FileImportResolver and checks resolution order, value, at-most-once load and "
      "evaluation per canonical file, byte-exact importstr/importbin, cycle handling, and - for every "
      "resolve and load event of the fault-free log - the run with exactly that event failed, followed "
      "on the same State by an unrelated import, a retry and a fresh importer over the same files; "
      "plus special targets and the CLI's -J / JSONNET_PATH priority over all presence patterns.",
      "Faults are injected at the resolver boundary (ImportIo); unreadable files cannot be produced by "
      "chmod as root. History independence is judged on results, not on the resolver log.",
      "runtime monitoring: recording + fault-injecting resolver wrapper, per-event fault enumeration, history-independence oracle",
      "DESIGN.md §3 C07")

check("C12", "exploration",
      "Evaluates the cross product of flag subsets x widths x precisions x 15 conversions x 25 values (full "
      "413k-cell product in thorough, a covering sample + 20k random cells in quick) as `fmt % vals` and "
      "std.format on the rel and overflow-checked builds, plus 60 malformed / truncated / edge format strings x "
      "34 argument shapes, and compares each result string / error-ness with a Python port of the reference "
      "std.format algorithm.",
      "The port is self-validated against Python's own % before every run (a failure = inconclusive); it abstains "
      "on rounding ties, exact powers of ten under e/g, fractional values under o/x, negative * widths and widths "
      "beyond 65535, where the published algorithms disagree or an implementation limit applies.",
      "runtime monitoring: differential oracle (port of the reference algorithm, self-validated) over the format-code cross product, rel + overflow-checked builds",
      "DESIGN.md §3 C12")

check("C10", "exploration",
      "Evaluates std.<fn>(args) for the array, set and higher-order functions named by the property on arrays of "
      "length 0..3 over an 11-element mixed alphabet (exhaustive to 2), random arrays of length 4..8 with duplicates, "
      "tagged objects (stability), key / predicate / fold / map functions defined twice (Jsonnet source + Python "
      "callable, including partial and type-changing ones), and every pair of subsets of a 5-element universe under "
      "3 key functions, and arrays / sets of 100-160 character strings held as differently shaped ropes (equal or differing in "
      "one character); compares value / error-ness with ports of the documented definitions and checks the sort "
      "law (ordered, stable permutation) on the real output.",
      "The reference ports abstain on undocumented corners (non-set inputs of set functions, fractional ranges "
      "or indexes, folds over strings). Error identity is compared as error-vs-value, not by message.",
      "runtime monitoring: differential oracle (ports of documented definitions) + output laws over generated calls",
      "DESIGN.md §3 C10")

check("C11", "exploration",
      "Evaluates the string, parser, codec and hash functions named by the property on strings of length 0..12 over "
      "{a, b, ',', ' ', e-acute, sharp-s, CJK, astral emoji, combining mark} with offsets / counts from below 0 to beyond the "
      "length, overlapping and repeating patterns, code points at every UTF-8 / UTF-16 boundary, numeric strings "
      "around 2^53 and digit validity, byte arrays with invalid UTF-8, malformed base64, wrong-type arguments, and "
      "compares value / error-ness with ports of the documented definitions (hashlib / base64 / codecs for the "
      "codecs); long strings are written as concatenations with random piece boundaries and association (ropes), alone and in "
      "pairs that differ in one character; evaluates inverse laws (encode/decode, split/join, chars, parseJson/parseYaml of manifestJson) on "
      "the real outputs.",
      "The ports abstain where the published implementations disagree: empty split delimiter, base64 of "
      "non-Latin-1 strings, decodeUTF8 of invalid bytes, parseInt beyond 2^53. Error identity is error-vs-value.",
      "runtime monitoring: differential oracle (definition ports + hashlib/base64/codecs) + inverse laws over generated calls",
      "DESIGN.md §3 C11")

check("C13", "exploration",
      "Builds objects with the C02 chain generator extended by lazily failing, hidden failing, null, nested (with hidden / "
      "null / empty members), nested `+:` and empty-container members; probes each with every function the property "
      "names (field lists, objectHasEx, value / key-value arrays incl. their lengths and single elements, std.get with "
      "failing defaults, mapWithKey with unused values, prune, objectRemoveKey, length / type / is*, equality, "
      "assertEqual, primitiveEquals; lookups, redefinition and `+:` extension of a removed name) and random pairs with mergePatch / equality "
      "and with std.objectRemoveKey results composed on either side of the other chain (all name-set functions), comparing value / error-ness with the "
      "reference object model + the documented std.jsonnet definitions including their laziness; JSON-like values of "
      "depth <= 3 for mergePatch / prune / equals / primitiveEquals / xor / xnor against independent ports and RFC "
      "7396 output laws.",
      "Errors are compared as error-vs-value. std.objectRemoveKey uses the C02 definition. The reference abstains "
      "where it would have to spell numbers in exponent form or exceeds its own recursion limit.",
      "runtime monitoring: differential oracle (reference object model + documented definitions incl. laziness) over generated inheritance chains and probes",
      "DESIGN.md §3 C13")

check("C14", "exploration",
      "Writes JSON-like values of depth <= 3 whose keys and strings come from a format-hostile alphabet (quotes, backslash, "
      "# : - = [ ] { } , & * ! | > % @ ` ?, edge white space, tab, CR, C0 controls, U+007F, C1 / NEL, LS / PS, BOM, non-ASCII, "
      "astral, empty string, YAML 1.1 keywords in several cases, number / date / sexagesimal / radix look-alikes) and "
      "block-scalar-safe multi-line strings with std.manifestYamlDoc / YamlStream / Toml / TomlEx / Python / PythonVars / "
      "XmlJsonml / Ini under every option combination and with the CLI format constructors (through the library, and through "
      "the executable for a sample), reads each text back with an independent reader (PyYAML safe_load, tomllib, "
      "ast.literal_eval, xml.etree, a line-based INI reader) and requires the same data; values outside each format's "
      "domain must be rejected. Failing values are reduced to a minimal failing value of the domain before being reported.",
      "PyYAML's YAML 1.1 resolver is the YAML reader; JSON documents inside a YAML stream are only required to read back "
      "when they contain no DEL / C1 / LS / PS (raw in JSON, accepted only by YAML 1.2). Domains of INI, XML names and "
      "PythonVars keys are stated in the evidence assumptions.",
      "runtime monitoring: round-trip oracle through independent format readers over generated hostile values and option combinations, with witness reduction",
      "DESIGN.md §3 C14")

check("C15", "exploration",
      "Performs the same evaluation through the library API (reference), the `jrsonnet` executable, libjsonnet.so (a C driver "
      "exercising settings, file / snippet x plain / multi / stream entry points, an import callback and native callbacks "
      "written in C; a sample under valgrind memcheck) and `jrsonnet-deps`, over generated file trees (relative imports, three "
      "library dirs with a shadowed name, importstr / importbin, chains, a file both imported and importstr'ed, imports in "
      "unevaluated positions) x programs x option configurations (each ext / tla flavour incl. from environment and from "
      "file, 0-3 -J dirs + JSONNET_PATH, -S / -y / -f / -m / -o / -c / --line-padding, --max-stack, file / -e / stdin input) "
      "plus a directed grid of output mode x value shape x input kind. Requires identical text and exit status / error flag, "
      "identical files for -m / -o, exact double-NUL framing, and the exact static import closure from jrsonnet-deps, which "
      "must contain every file an evaluation loaded.",
      "Errors are compared by flag (and non-empty message), not by which of several possible errors is reported. The "
      "C driver follows bindings/c/libjsonnet.h; the memcheck sample covers only the scripts it runs.",
      "runtime monitoring: differential oracle across four interfaces to the same evaluation + valgrind memcheck on the C boundary",
      "DESIGN.md §3 C15")

check("C16", "exploration",
      "Evaluates each program (57 templates with randomised similar identifiers: suggestions, several failing places, "
      "equality between separately built objects whose fields all fail or trace, imports of files that fail at evaluation / parsing / "
      "decoding repeated on one state, duplicate definitions, enumeration of up to 40 fields through every listing / manifesting function, traces, stack "
      "limits; plus random generated programs) in two fresh processes (one with a shuffled pre-interned string pool), in a "
      "long-lived process after a random history of values, errors, stack overflows and pool changes (long-lived state, fresh "
      "state, and again), and a sample through three runs of the executable; requires byte-identical manifested text or full "
      "error text (message + trace) in all of them.",
      "No reference semantics is involved; the check says nothing about whether the common output is right. Relies on "
      "ASLR (on in this sandbox) and on the pre-interned pool to move string addresses.",
      "runtime monitoring: replay of the same evaluation under different process / address-space / history conditions with a byte-equality oracle",
      "DESIGN.md §3 C16")

check("C18", "exploration",
      "Collector: evaluates hand-written cyclic structures, the C03 sharing shapes, sampled C02 chains, random programs (values "
      "and errors, stack overflows), 10 runaway recursions through guarded regions (object assertions, field reads, array elements, std "
      "callbacks) cut off at every frame limit of a range (16 limits quick, 40 thorough) and importing files three times each in fresh states, and batches in one long-lived state "
      "that is then dropped, reading jrsonnet_gcmodule::count_thread_tracked() after collect_thread_cycles() and the interner "
      "pool size once every handle of the job is gone; the gauges must not grow from one repetition to the next. Interner: an "
      "operation-sequence driver runs every history of <= 4 (quick) / 6 (thorough) operations (intern str / bytes, clone, drop, "
      "cast, pool hand-over) over 8 contents and 4 handle slots plus long random histories with hand-over to another thread "
      "against the real interner and an executable model, checking 5 invariants after every operation, in optimised and "
      "debug-assertion builds and under Miri. The cyclic and interner-heavy programs plus a sample of the workload are replayed "
      "through the worker under AddressSanitizer + LeakSanitizer, valgrind memcheck (definite leaks) and Miri.",
      "Objects that stay tracked after the first evaluation of a program are treated as per-thread singletons (the shared "
      "empty object, cached builtin parameter names): a leak is defined as growth per repetition. Miri covers only the "
      "histories it is given (exhaustive to length 2 / 3 plus a few hundred random operations).",
      "runtime monitoring: gauge monitors at quiescent points (collector), executable-model invariant checker over operation histories (interner), Miri / ASan+LSan / memcheck",
      "DESIGN.md §3 C18")

NOT_APPLICABLE = []


def main():
    all_ids = ["C%02d" % i for i in range(1, 21)]
    na = [x for x in NOT_APPLICABLE]
    claimed = set(CHECKS)
    listed = {x["property_id"] for x in na}
    for pid in all_ids:
        if pid not in claimed and pid not in listed:
            na.append({"property_id": pid,
                       "reason": "check not built yet in this revision (planned, see DESIGN.md)"})
    m = {
        "version": 1,
        "setup_cmd": "./setup.sh",
        "hooks": {
            "guard": "cargo feature `verif-hooks` on crate jrsonnet-interner (off by default)",
            "enable": "the harness crate /verif/harness depends on jrsonnet-interner with "
                      "features=[\"verif-hooks\"]; nothing in /repo enables it",
            "baseline_off_cmd": "cd /repo && cargo test --workspace --no-fail-fast --offline",
            "source_commits": ["21b79b0"],
            "add_only": True,
        },
        "engines": [
            {"name": "jv-worker+python-monitors", "path": "/verif/harness, /verif/mon",
             "serves_properties": sorted(claimed),
             "kind_free_text": "in-process monitor host (Rust, links the working tree's crates; built as release-like, "
                               "overflow-checked, AddressSanitizer and Miri variants, also run under valgrind memcheck) "
                               "driven by Python workload generators and reference oracles"},
            {"name": "jv-intern", "path": "/verif/harness-intern", "serves_properties": ["C18"],
             "kind_free_text": "interner operation-history driver with an executable model (native + Miri, Stacked Borrows)"},
            {"name": "cdriver", "path": "/verif/harness/cdriver", "serves_properties": ["C15"],
             "kind_free_text": "C program driving libjsonnet.so through its C ABI (also under valgrind memcheck)"},
        ],
        "checks": [CHECKS[k] for k in sorted(CHECKS)],
        "not_applicable": na,
        "notes": "All checks rebuild the harness against /repo's working tree via cargo (offline) "
                 "before running. Known findings: /verif/known_findings.json.",
    }
    with open(os.path.join(VERIF, "MANIFEST.json"), "w") as f:
        json.dump(m, f, indent=1)
        f.write("\n")


if __name__ == "__main__":
    main()
