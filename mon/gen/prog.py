"""Type-directed random program generator over the standard Jsonnet grammar (AST of
mon/ref/jast.py).  Knobs: size bound, probability of ill-typed sub-terms, planted errors
and bombs, laziness/sharing shapes.  Everything derives from the rng passed in."""

TYPES = ["num", "bool", "str", "arr", "obj", "fn", "null"]
FIELD_NAMES = ["a", "b", "c", "d", "k y", "é", "self_", "local_"]
STRS = ["", "a", "b", "ab", "é", "漢😀", "x y", "q\"r", "line\nfeed", "%s", "0", "text\nblock\n", "t\tab\n\n indented\n", "it's", "back\\slash", "a/b", "\b\f\r\x7f/"]
NUMS = [0.0, 1.0, 2.0, 3.0, -1.0, 5.0, 7.0, 10.0, 0.5, -2.5, 1.125, 100.0, 255.0, 1000.0]

N = lambda x: ("num", float(x))
S = lambda s: ("str", s)
V = lambda n: ("var", n)
STD = lambda f, *a: ("apply", ("index", ("var", "std"), ("str", f), "dot"), list(a), [], False)


class Gen:
    def __init__(self, rng, max_depth=5, ill=0.05, err=0.03, bombs=0.0, allow_std=True):
        self.r = rng
        self.max_depth = max_depth
        self.ill = ill
        self.err = err
        self.bombs = bombs
        self.allow_std = allow_std
        self.counter = 0
        self.nodes = 0

    def fresh(self, p="v"):
        self.counter += 1
        return "%s%d" % (p, self.counter)

    # ------------------------------------------------------------ entry
    def program(self, t=None):
        self.nodes = 0
        return self.gen(t or self.r.choice(["num", "bool", "str", "arr", "obj", "any", "any"]), 0, [])

    def vars_of(self, env, t):
        return [n for n, vt, _ in env if vt == t or (vt == "any" and self.r.random() < 0.3)]

    def bomb(self):
        k = self.r.random()
        if k < 0.4:
            return ("error", S("BOMB"))
        if k < 0.7:
            return ("assert", ("lit", "false"), S("BOMB"), N(1))
        f = self.fresh("loop")
        return ("local", [("bindfn", f, [("x", None)], ("apply", V(f), [("bin", "+", V("x"), N(1))], [], False))],
                ("apply", V(f), [N(0)], [], False))

    def gen(self, t, d, env):
        self.nodes += 1
        r = self.r
        if t == "any":
            t = r.choice(TYPES[:5] + ["num", "str"])
        if r.random() < self.err and d > 0:
            return ("error", S("planted")) if r.random() < 0.7 else \
                ("assert", ("lit", "false"), None, self.leaf(t, env))
        if r.random() < self.ill and d > 0:
            t = r.choice([x for x in TYPES if x != t])
        if d >= self.max_depth or self.nodes > 70:
            return self.leaf(t, env)
        # generic wrappers available at every type
        k = r.random()
        if k < 0.10:
            return self.gen_local(t, d, env)
        if k < 0.17:
            c = self.gen("bool", d + 1, env)
            return ("if", c, self.gen(t, d + 1, env), self.gen(t, d + 1, env))
        if k < 0.22:
            return self.gen_call(t, d, env)
        if k < 0.26:
            # index into a literal array / field of a literal object holding the value
            if r.random() < 0.5:
                n = r.randrange(1, 4)
                i = r.randrange(n)
                items = [self.gen(t, d + 1, env) if j == i else self.unneeded(d, env) for j in range(n)]
                return ("index", ("arr", items), N(i))
            names = r.sample(FIELD_NAMES, r.randrange(1, 4))
            pick = r.choice(names)
            members = [("field", ("fixed", nm), False, r.choice([":", "::", ":::"]), None,
                        self.gen(t, d + 1, env) if nm == pick else self.unneeded(d, env)) for nm in names]
            return ("index", ("obj", members), S(pick), "dot")
        if k < 0.28:
            return ("assert", self.gen("bool", d + 1, env), S("m") if r.random() < 0.5 else None,
                    self.gen(t, d + 1, env))
        return getattr(self, "g_" + t)(d, env)

    def unneeded(self, d, env):
        if self.r.random() < self.bombs:
            return self.bomb()
        return self.gen("any", d + 2, env)

    def leaf(self, t, env):
        r = self.r
        vs = self.vars_of(env, t)
        if vs and r.random() < 0.5:
            return V(r.choice(vs))
        if t == "num":
            return N(r.choice(NUMS))
        if t == "bool":
            return ("lit", r.choice(["true", "false"]))
        if t == "str":
            return ("str", r.choice(STRS), r.choice(["d", "d", "s", "vd", "vs", "blk"]))
        if t == "null":
            return ("lit", "null")
        if t == "arr":
            return ("arr", [N(r.choice(NUMS)) for _ in range(r.randrange(0, 3))])
        if t == "obj":
            return ("obj", [("field", ("fixed", n), False, ":", None, N(r.choice(NUMS)))
                            for n in r.sample(FIELD_NAMES[:4], r.randrange(0, 3))])
        if t == "fn":
            return ("fn", [("x", None)], V("x"))
        return ("lit", "null")

    # ------------------------------------------------------------ generic shapes
    def gen_local(self, t, d, env):
        r = self.r
        n = r.randrange(1, 4)
        binds = []
        env2 = list(env)
        names = [self.fresh() for _ in range(n)]
        types = [r.choice(["num", "str", "bool", "arr", "obj", "fn"]) for _ in range(n)]
        for nm, ty in zip(names, types):
            env2.append((nm, ty, None))
        for nm, ty in zip(names, types):
            if ty == "fn":
                params = self.gen_params(d, env2)
                penv = env2 + [(p, "any", None) for p, _ in params]
                body = self.gen("num", d + 2, penv)
                if r.random() < 0.5:
                    binds.append(("bindfn", nm, params, body))
                else:
                    binds.append(("bind", nm, ("fn", params, body)))
            else:
                # locals may refer to each other (mutual recursion through laziness) only via
                # function bodies / fields, so a plain local body uses the outer env
                val = self.unneeded(d, env) if r.random() < 0.25 else self.gen(ty, d + 1, env)
                binds.append(("bind", nm, val))
        # shadowing
        if env and r.random() < 0.15:
            sh = r.choice(env)
            binds.append(("bind", sh[0], self.gen(sh[1] if sh[1] != "any" else "num", d + 1, env)))
        return ("local", binds, self.gen(t, d + 1, env2))

    def gen_params(self, d, env):
        r = self.r
        k = r.randrange(0, 4)
        names = [self.fresh("p") for _ in range(k)]
        params = []
        for i, nm in enumerate(names):
            if r.random() < 0.4:
                # defaults may refer to other parameters, including later ones
                others = [x for x in names if x != nm]
                if others and r.random() < 0.4:
                    dflt = ("bin", "+", V(r.choice(others)), N(1)) if r.random() < 0.7 else V(r.choice(others))
                else:
                    dflt = self.leaf(r.choice(["num", "str", "arr"]), env)
                params.append((nm, dflt))
            else:
                params.append((nm, None))
        return params

    def gen_call(self, t, d, env):
        """immediately applied function literal / local function whose body has type t"""
        r = self.r
        params = self.gen_params(d, env)
        ptypes = {p: r.choice(["num", "str", "arr", "obj", "bool"]) for p, _ in params}
        penv = env + [(p, ptypes[p], None) for p, _ in params]
        body = self.gen(t, d + 1, penv)
        args, named = [], []
        style = r.random()
        supplied = []
        for p, dflt in params:
            if dflt is not None and r.random() < 0.5:
                continue
            supplied.append(p)
        # wrong-arity / unknown-name / duplicate variants
        k = r.random()
        if k < 0.04 and params:
            supplied = supplied[:-1] if supplied else supplied
        npos = r.randrange(0, len(supplied) + 1) if style < 0.6 else (len(supplied) if style < 0.8 else 0)
        # positional arguments must be a prefix of the parameter list
        pos_names = [p for p, _ in params][:npos]
        for p in pos_names:
            args.append(self.unneeded(d, env) if r.random() < 0.15 else self.gen(ptypes[p], d + 1, env))
        rest = [p for p in supplied if p not in pos_names]
        r.shuffle(rest)
        for p in rest:
            named.append((p, self.gen(ptypes[p], d + 1, env)))
        if k > 0.97:
            named.append((self.fresh("nope"), N(1)))
        if 0.94 < k <= 0.97 and pos_names:
            named.append((pos_names[0], N(1)))
        if 0.92 < k <= 0.94:
            args = args + [N(1)] * (len(params) - len(args) + 1)
            named = []
        fn = ("fn", params, body)
        ts = r.random() < 0.15
        if r.random() < 0.5:
            f = self.fresh("f")
            bind = ("bindfn", f, params, body) if r.random() < 0.5 else ("bind", f, fn)
            return ("local", [bind], ("apply", V(f), args, named, ts))
        return ("apply", fn, args, named, ts)

    # ------------------------------------------------------------ per type
    def g_num(self, d, env):
        r = self.r
        k = r.random()
        if k < 0.30:
            op = r.choice(["+", "-", "*", "/", "%", "+", "-", "*"])
            rhs = self.gen("num", d + 1, env)
            if op in "/%" and r.random() < 0.85:
                rhs = N(r.choice([1.0, 2.0, 3.0, 0.5, -4.0, 8.0]))
            return ("bin", op, self.gen("num", d + 1, env), rhs)
        if k < 0.38:
            op = r.choice(["&", "|", "^", "<<", ">>"])
            a = N(r.randrange(-20, 200))
            b = N(r.randrange(0, 9)) if op in ("<<", ">>") else N(r.randrange(-20, 200))
            if r.random() < 0.3:
                a = self.gen("num", d + 1, env)
            return ("bin", op, a, b)
        if k < 0.46:
            return ("un", r.choice(["-", "+", "-"]), self.gen("num", d + 1, env))
        if k < 0.49:
            return ("un", "~", N(r.randrange(-50, 50)))
        if k < 0.60 and self.allow_std:
            return STD("length", self.gen(r.choice(["arr", "str", "obj", "fn"]), d + 1, env))
        if k < 0.72:
            arr = self.gen_arr_of("num", d + 1, env)
            return ("index", arr, N(r.randrange(0, 3)) if r.random() < 0.8 else self.gen("num", d + 1, env))
        if k < 0.80:
            return ("index", self.gen_obj_with(d + 1, env, "a", "num"), S("a"), "dot" if r.random() < 0.6 else "br")
        if k < 0.84:
            f = self.fresh("rec")
            n = self.fresh("n")
            body = ("if", ("bin", "<=", V(n), N(0)), self.leaf("num", env),
                    ("bin", r.choice(["+", "*"]), V(n), ("apply", V(f), [("bin", "-", V(n), N(1))], [], r.random() < 0.3)))
            return ("local", [("bindfn", f, [(n, None)], body)], ("apply", V(f), [N(r.randrange(0, 6))], [], False))
        return self.leaf("num", env)

    def g_bool(self, d, env):
        r = self.r
        k = r.random()
        if k < 0.25:
            t = r.choice(["num", "num", "str", "arr"])
            if t == "arr":
                return ("bin", r.choice(["<", "<=", ">", ">="]), self.gen_arr_of("num", d + 1, env),
                        self.gen_arr_of("num", d + 1, env))
            return ("bin", r.choice(["<", "<=", ">", ">="]), self.gen(t, d + 1, env), self.gen(t, d + 1, env))
        if k < 0.50:
            t = r.choice(["num", "str", "arr", "obj", "bool", "null", "any"])
            t2 = t if r.random() < 0.8 else "any"
            return ("bin", r.choice(["==", "!="]), self.gen(t, d + 1, env), self.gen(t2, d + 1, env))
        if k < 0.60:
            return ("un", "!", self.gen("bool", d + 1, env))
        if k < 0.80:
            op = r.choice(["&&", "||"])
            rhs = self.gen("bool", d + 1, env)
            if r.random() < 0.2:
                rhs = self.unneeded(d, env)
            return ("bin", op, self.gen("bool", d + 1, env), rhs)
        if k < 0.90:
            return ("bin", "in", self.gen("str", d + 1, env) if r.random() < 0.3 else S(r.choice(FIELD_NAMES[:4])),
                    self.gen("obj", d + 1, env))
        return self.leaf("bool", env)

    def g_str(self, d, env):
        r = self.r
        k = r.random()
        if k < 0.35:
            a = self.gen("str", d + 1, env)
            b = self.gen(r.choice(["str", "str", "num", "bool", "null"]), d + 1, env)
            return ("bin", "+", a, b) if r.random() < 0.7 else ("bin", "+", b, a)
        if k < 0.50:
            return ("index", S(r.choice(STRS[1:7])), N(r.randrange(0, 3)))
        if k < 0.62:
            return ("slice", self.gen("str", d + 1, env), *self.slice_parts())
        if k < 0.70 and self.allow_std:
            return STD("type", self.gen("any", d + 1, env))
        return self.leaf("str", env)

    def slice_parts(self):
        r = self.r
        pick = lambda: None if r.random() < 0.4 else N(r.choice([0, 1, 2, 3, -1, -2, 5]))
        a, b = pick(), pick()
        c = None if r.random() < 0.6 else N(r.choice([1, 2, 3]))
        return a, b, c

    def gen_arr_of(self, t, d, env):
        r = self.r
        k = r.random()
        if k < 0.6 or d >= self.max_depth:
            return ("arr", [self.gen(t, d + 1, env) for _ in range(r.randrange(0, 4))])
        if k < 0.8:
            x = self.fresh("x")
            src = self.gen_arr_of(t, d + 1, env)
            specs = [("for", x, src)]
            env2 = env + [(x, t, None)]
            if r.random() < 0.4:
                specs.append(("if", self.gen("bool", d + 1, env2)))
            if r.random() < 0.2:
                y = self.fresh("y")
                specs.append(("for", y, self.gen_arr_of(t, d + 2, env2)))
                env2 = env2 + [(y, t, None)]
            return ("arrcomp", self.gen(t, d + 1, env2), specs)
        if k < 0.9:
            return ("bin", "+", self.gen_arr_of(t, d + 1, env), self.gen_arr_of(t, d + 1, env))
        return ("slice", self.gen_arr_of(t, d + 1, env), *self.slice_parts())

    def g_arr(self, d, env):
        r = self.r
        if self.allow_std and r.random() < 0.1:
            i = self.fresh("i")
            if r.random() < 0.4:
                # callback invoked by a builtin, with a default that refers to the passed parameter
                dn = self.fresh("d")
                return STD("makeArray", N(r.randrange(0, 4)),
                           ("fn", [(i, None), (dn, ("bin", "+", V(i), N(10)))],
                            ("bin", "+", V(dn), self.gen("num", d + 1, env + [(i, "num", None), (dn, "num", None)]))))
            return STD("makeArray", N(r.randrange(0, 4)), ("fn", [(i, None)], self.gen("num", d + 1, env + [(i, "num", None)])))
        return self.gen_arr_of(r.choice(["num", "num", "str", "any", "arr", "obj"]), d, env)

    def gen_obj_with(self, d, env, name, t):
        members = [("field", ("fixed", name), False, self.r.choice([":", ":", "::", ":::"]), None, self.gen(t, d + 1, env))]
        return self.gen_obj_layers(d, env, members)

    def gen_obj_layers(self, d, env, first_members=None):
        """object built from 1-3 layers with self/super/$ references"""
        r = self.r
        nl = r.choice([1, 1, 2, 2, 3])
        layers = []
        known = []  # (name, type) visible so far
        for li in range(nl):
            members = list(first_members) if (li == 0 and first_members) else []
            used = {m[1][1] for m in members if m[0] == "field" and m[1][0] == "fixed"}
            oenv = list(env)
            if r.random() < 0.3:
                ln = self.fresh("ol")
                members.append(("olocal", ("bind", ln, self.gen("num", d + 2, env))))
                oenv = oenv + [(ln, "num", None)]
            if r.random() < 0.2:
                members.append(("oassert", ("lit", "true") if r.random() < 0.8 else self.gen("bool", d + 2, env),
                                S("oa") if r.random() < 0.5 else None))
            for _ in range(r.randrange(0, 4)):
                nm = r.choice(FIELD_NAMES)
                if nm in used:
                    continue
                used.add(nm)
                vis = r.choice([":", ":", ":", "::", ":::"])
                plus = li > 0 and r.random() < 0.3
                k = r.random()
                if k < 0.25 and known:
                    ref, rt = r.choice(known)
                    base = r.choice([("lit", "self"), ("lit", "$")]) if (li == 0 or r.random() < 0.6) else ("lit", "super")
                    if base == ("lit", "super") and not any(ref in L for L in layers[:li]):
                        base = ("lit", "self")
                    val = ("index", base, S(ref), "dot" if r.random() < 0.7 else "br")
                    ft = rt
                elif k < 0.32 and li > 0:
                    val = ("bin", "in", S(r.choice(FIELD_NAMES[:4])), ("lit", "super"))
                    ft = "bool"
                elif k < 0.40:
                    params = self.gen_params(d, env)
                    penv = oenv + [(p, "any", None) for p, _ in params]
                    members.append(("field", ("fixed", nm), False, vis, params, self.gen("num", d + 2, penv)))
                    known.append((nm, "fn"))
                    continue
                else:
                    ft = r.choice(["num", "num", "str", "arr", "obj", "bool"])
                    if plus:
                        prev = [t for n, t in known if n == nm]
                        ft = prev[-1] if prev and prev[-1] in ("num", "str", "arr", "obj") else "num"
                    val = self.unneeded(d, oenv) if r.random() < 0.15 else self.gen(ft, d + 2, oenv)
                fname = ("fixed", nm) if r.random() < 0.85 else ("dyn", S(nm) if r.random() < 0.7 else ("bin", "+", S(nm[:1]), S(nm[1:])))
                members.append(("field", fname, plus, vis, None, val))
                known.append((nm, ft))
            layers.append({m[1][1] for m in members if m[0] == "field" and m[1][0] == "fixed"})
            node = ("obj", members)
            if li == 0:
                acc = node
            else:
                acc = ("bin", "+", acc, node) if r.random() < 0.6 else ("objext", acc, node)
        return acc

    def g_obj(self, d, env):
        r = self.r
        k = r.random()
        if k < 0.75:
            return self.gen_obj_layers(d, env)
        if k < 0.9:
            x = self.fresh("k")
            keys = r.sample(FIELD_NAMES, r.randrange(0, 4))
            specs = [("for", x, ("arr", [S(s) for s in keys]))]
            if r.random() < 0.3:
                specs.append(("if", ("bin", "!=", V(x), S(r.choice(FIELD_NAMES)))))
            env2 = env + [(x, "str", None)]
            fld = ("field", ("dyn", V(x) if r.random() < 0.8 else ("bin", "+", V(x), S("_"))), False, ":", None,
                   self.gen(r.choice(["num", "str"]), d + 1, env2))
            return ("objcomp", [], fld, specs)
        if self.allow_std:
            return STD("objectRemoveKey", self.gen_obj_layers(d, env), S(r.choice(FIELD_NAMES[:4])))
        return self.gen_obj_layers(d, env)

    def g_fn(self, d, env):
        params = self.gen_params(d, env)
        penv = env + [(p, "any", None) for p, _ in params]
        return ("fn", params, self.gen("num", d + 1, penv))

    def g_null(self, d, env):
        if self.r.random() < 0.5:
            return ("if", self.gen("bool", d + 1, env) if self.r.random() < 0.5 else ("lit", "false"),
                    self.gen("any", d + 1, env), None)
        return ("lit", "null")


# ----------------------------------------------------------------- instrumentation (C03)
def instrument(e, counter=None, prefix="L"):
    """wrap every sub-expression in std.trace("<prefix><k>", e) with a distinct label"""
    counter = counter if counter is not None else [0]

    def label():
        counter[0] += 1
        return "%s%d" % (prefix, counter[0])

    def w(x):
        return ("apply", ("index", ("var", "std"), ("str", "trace"), "dot"), [("str", label()), x], [], False)

    def params(ps):
        return [(n, None if d is None else go(d)) for n, d in ps]

    def bind(b):
        if b[0] == "bind":
            return ("bind", b[1], go(b[2]))
        return ("bindfn", b[1], params(b[2]), go(b[3]))

    def specs(ss):
        return [("for", s[1], go(s[2])) if s[0] == "for" else ("if", go(s[1])) for s in ss]

    def member(m):
        if m[0] == "field":
            fn = m[1] if m[1][0] == "fixed" else ("dyn", go(m[1][1]))
            return ("field", fn, m[2], m[3], None if m[4] is None else params(m[4]), go(m[5]))
        if m[0] == "olocal":
            return ("olocal", bind(m[1]))
        return ("oassert", go(m[1]), None if m[2] is None else go(m[2]))

    def body(o):
        if o[0] == "obj":
            return ("obj", [member(m) for m in o[1]])
        return ("objcomp", [bind(b) for b in o[1]], member(o[2]), specs(o[3]))

    def go(x):
        t = x[0]
        if t == "lit":
            return x if x[1] == "super" else w(x)
        if t in ("num", "str", "var"):
            return w(x)
        if t == "arr":
            return w(("arr", [go(i) for i in x[1]]))
        if t == "arrcomp":
            return w(("arrcomp", go(x[1]), specs(x[2])))
        if t in ("obj", "objcomp"):
            return w(body(x))
        if t == "objext":
            return w(("objext", go(x[1]), body(x[2])))
        if t == "un":
            return w(("un", x[1], go(x[2])))
        if t == "bin":
            r = x[3] if x[3] == ("lit", "super") else go(x[3])
            return w(("bin", x[1], go(x[2]), r))
        if t == "assert":
            return w(("assert", go(x[1]), None if x[2] is None else go(x[2]), go(x[3])))
        if t == "local":
            return w(("local", [bind(b) for b in x[1]], go(x[2])))
        if t == "error":
            return w(("error", go(x[1])))
        if t == "fn":
            return w(("fn", params(x[1]), go(x[2])))
        if t == "apply":
            return w(("apply", go(x[1]), [go(a) for a in x[2]], [(n, go(a)) for n, a in x[3]], x[4]))
        if t == "if":
            return w(("if", go(x[1]), go(x[2]), None if x[3] is None else go(x[3])))
        if t == "index":
            b = x[1] if x[1] == ("lit", "super") else go(x[1])
            if len(x) > 3 and x[3] == "dot":
                return w(("index", b, x[2], "dot"))
            return w(("index", b, go(x[2])))
        if t == "slice":
            return w(("slice", go(x[1]), *[None if p is None else go(p) for p in x[2:5]]))
        return x
    return go(e)
