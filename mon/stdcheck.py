"""Engine shared by C10 / C11 / C13: evaluates std.<fn>(args) through the worker and compares
value / error-ness with the reference definitions in mon/ref/stdlib_ref.py."""
import json

from . import runner
from .common import jval, jstr, outcome, strict_json, deep_equal, panic_sig
from .ref import stdlib_ref as R


class JFn(R.Fn):
    """a function argument defined twice: Jsonnet source + Python callable"""

    def __init__(self, src, f, arity=1):
        R.Fn.__init__(self, f, arity)
        self.src = src


class JCat(str):
    """a string argument written in the program as a concatenation of its pieces (long concatenations are kept
    as ropes by the evaluator instead of flat strings).  `cuts` (piece boundaries) and `right` (association) vary
    the shape of the rope, so that two equal or nearly equal texts are held as differently shaped trees"""

    def __new__(cls, s, cuts=None, right=False):
        o = str.__new__(cls, s)
        n = len(s)
        o.cuts = sorted({0, n} | set(cuts if cuts is not None else (n // 3, (2 * n) // 3)))
        o.right = right
        return o

    @staticmethod
    def shaped(s, rng):
        n = len(s)
        k = rng.choice([1, 1, 2, 3])
        return JCat(s, cuts=[rng.randrange(0, n + 1) for _ in range(k)] if n else [], right=rng.random() < 0.5)

    def source(self):
        n = len(self)
        if n < 3:
            return jstr(str(self))
        ps = [jstr(self[a:b]) for a, b in zip(self.cuts, self.cuts[1:]) if b > a]
        if len(ps) == 1:
            return ps[0]
        if self.right:
            out = ps[-1]
            for q in reversed(ps[:-1]):
                out = "(%s + %s)" % (q, out)
            return out
        return "(" + " + ".join(ps) + ")"


def render(v):
    if isinstance(v, JFn):
        return "(" + v.src + ")"
    if isinstance(v, JCat):
        return v.source()
    if isinstance(v, list):
        return "[" + ", ".join(render(x) for x in v) + "]"
    if isinstance(v, dict):
        return "{" + ", ".join("%s: %s" % (jstr(k), render(x)) for k, x in v.items()) + "}"
    return jval(v)


def describe(v):
    if isinstance(v, JFn):
        return "<fn %s>" % v.src
    if isinstance(v, list):
        return [describe(x) for x in v]
    if isinstance(v, dict):
        return {k: describe(x) for k, x in v.items()}
    return v


def num(x):
    if not isinstance(x, (int, float)) or isinstance(x, bool):
        raise R.RefError("expected number")
    return x


def _neg(x):
    return -num(x)


def _mod2(x):
    import math
    return math.fmod(num(x), 2)


def _field(x):
    if not isinstance(x, dict):
        raise R.RefError("not an object")
    if "k" not in x:
        raise R.RefError("no field k")
    return x["k"]


def _partial(x):
    if x == 2 and not isinstance(x, bool):
        raise R.RefError("partial")
    return x


def _tstr(x):
    if isinstance(x, (int, float)) and not isinstance(x, bool):
        return "n" if x >= 0 else "m"
    return x


def _len(x):
    if isinstance(x, (str, list, dict)):
        return float(len(x))
    raise R.RefError("length")


KEYFNS = [
    JFn("function(x) x", lambda x: x), JFn("function(x) -x", _neg), JFn("function(x) x % 2", _mod2),
    JFn("function(x) 0", lambda x: 0.0), JFn("function(x) x.k", _field),
    JFn("function(x) if x == 2 then error 'p' else x", _partial),
    JFn("function(x) if std.isNumber(x) then (if x >= 0 then 'n' else 'm') else x", _tstr),
    JFn("function(x) std.length(x)", _len),
]


def _pred_pos(x):
    return num(x) > 0


def _pred_isnum(x):
    return isinstance(x, (int, float)) and not isinstance(x, bool)


PREDS = [
    JFn("function(x) x > 0", _pred_pos), JFn("function(x) std.isNumber(x)", _pred_isnum),
    JFn("function(x) true", lambda x: True), JFn("function(x) false", lambda x: False),
    JFn("function(x) 1", lambda x: 1.0), JFn("function(x) if x == 2 then error 'p' else true", lambda x: _partial(x) is not None or True),
]


def _add(a, b):
    ta, tb = R.jtype(a), R.jtype(b)
    if ta == "number" and tb == "number":
        return a + b
    if ta == "array" and tb == "array":
        return a + b
    if ta == "string" and tb == "string":
        return a + b
    if ta == "string" or tb == "string":
        raise R.Abstain("string conversion")
    if ta == "object" and tb == "object":
        raise R.Abstain("object merge")
    raise R.RefError("cannot add")


FOLDS = [
    JFn("function(a, b) a + b", _add, 2), JFn("function(a, b) [a, b]", lambda a, b: [a, b], 2),
    JFn("function(a, b) b", lambda a, b: b, 2), JFn("function(a, b) a", lambda a, b: a, 2),
]
MAPFNS = [
    JFn("function(x) [x]", lambda x: [x]), JFn("function(x) x", lambda x: x), JFn("function(x) null", lambda x: None),
    JFn("function(x) if x == 2 then error 'p' else [x, x]", lambda x: [_partial(x), x]),
    JFn("function(x) 'z'", lambda x: "z"),
]
IDXFNS = [JFn("function(i, x) [i, x]", lambda i, x: [i, x], 2), JFn("function(i, x) i", lambda i, x: i, 2)]


def reference(fname, args):
    f = R.REF[fname]
    try:
        return ("ok", f(*args))
    except R.RefError as e:
        return ("error", str(e))
    except R.Abstain as e:
        return ("abstain", str(e))
    except (RecursionError, OverflowError, MemoryError) as e:
        return ("abstain", repr(e))


def arg_kinds(args):
    return ",".join("fn" if isinstance(a, JFn) else R.jtype(a) for a in args)


def check_call(acc, w, prop, fname, args, laws=None, named=None, classify=None):
    """evaluate std.<fname>(args) and compare with the reference; returns (ref, got)"""
    ref = reference(fname, args)
    parts = [render(a) for a in args]
    if named:
        parts = [("%s=%s" % (n, p) if n else p) for n, p in zip(named, parts)]
    src = "std.%s(%s)" % (fname, ", ".join(parts))
    acc.inc("evaluations")
    rec = w.call({"op": "eval", "code": src, "state_id": "s"}, timeout=30)
    cls, pay = outcome(rec)
    wit = {"call": src if len(src) < 1500 else src[:1500] + "...", "args": describe(list(args)), "expected": ref}
    if cls in ("timeout", "harness"):
        acc.inconclusive.append({"case": wit, "why": cls})
        return ref, None
    if cls in ("panic", "crash"):
        if cls == "crash" and runner.classify_crash(rec) == "resource":
            acc.inc("resource_class")
            return ref, None
        p = panic_sig(pay) if cls == "panic" else ("crash", "")
        acc.violation({"oracle": "crash", "fn": fname, "site": p[0], "msg": p[1]}, dict(wit, observed=pay))
        return ref, None
    got = ("ok", strict_json(pay)) if cls == "ok" else ("error", pay["kind"])
    acc.add("functions", fname)
    if ref[0] == "abstain":
        acc.inc("abstained")
        return ref, got
    same = got[0] == ref[0] and (got[0] == "error" or deep_equal(got[1], expected_json(ref[1])))
    if same and laws and got[0] == "ok":
        bad = laws(args, got[1])
        if bad:
            acc.violation({"oracle": "law", "fn": fname, "law": bad}, dict(wit, observed=got))
            return ref, got
    if same:
        acc.distinct(src)
    else:
        sig = {"oracle": "differs-from-definition", "fn": fname, "expected": ref[0], "got": got[0], "arg_kinds": arg_kinds(args)}
        if classify:
            sig.update(classify(fname, args, ref, got) or {})
        acc.violation(sig, dict(wit, observed=got))
    return ref, got


def expected_json(v):
    if isinstance(v, dict):
        return {k: expected_json(x) for k, x in v.items()}
    if isinstance(v, list):
        return [expected_json(x) for x in v]
    if isinstance(v, int) and not isinstance(v, bool):
        return float(v)
    if isinstance(v, str):
        return str(v)    # JCat arguments flow through the reference definitions unchanged
    return v
