"""Sanitizer passes.

A check that has just run its workload on the `rel` build hands the sample of stateless jobs
recorded by runner._corpus_offer to this module, which replays it through the same worker
program under three memory monitors and watches for reports:

  asan      jv-worker built with nightly -Zsanitizer=address (profile chk): heap / stack out of
            bounds, use after free, double free; LeakSanitizer at process exit
  memcheck  valgrind memcheck on the `rel` binary: invalid reads / writes, uninitialised value
            use, invalid frees; definite leaks at exit
  miri      `cargo +nightly miri run` of jv-worker (Tree Borrows - the third-party collector
            jrsonnet-gcmodule is rejected by Stacked Borrows on its very first use, see DESIGN.md):
            undefined behaviour in the unsafe blocks reached (interner reference counting, JSON
            escape writer byte view, NumValue::cmp unwrap_unchecked, WeakObjValue hashing), leaks

Oracles: (1) no report from the monitor, no death by signal; (2) the job's outcome under the
monitor equals the outcome recorded on the `rel` build (value text / error kind) - a difference
means behaviour depends on something the language does not define.  A panic in an instrumented
build is only a verdict for the crash-type properties (it is counted for the others).
Inconclusive (never a violation): the instrumented build or Miri is unavailable, a watchdog fired.
"""
import json
import os
import re
import subprocess
import tempfile
import time
import concurrent.futures

from . import runner

CRASH_PROPS = {"C04", "C08", "C12", "C20"}


def _dedupe(corpus):
    seen = set()
    out = []
    for it in corpus:
        k = runner.h64([it["job"], it["env"]])
        if k not in seen:
            seen.add(k)
            out.append(it)
    out.sort(key=lambda it: runner.h64([it["job"], it["env"]]))
    return out


def _first_repo_frame(text):
    """first stack frame that lies in the repository (for deduplicating reports)"""
    for m in re.finditer(r"(?:in |at |by 0x[0-9A-F]+: )([A-Za-z_<][^\n]*?)(?: \(|\n| /)", text):
        f = m.group(1)
        if "jrsonnet" in f and "jv_worker" not in f:
            return re.sub(r"::h[0-9a-f]{16}", "", f)[:100]
    m = re.search(r"(%s/[^\s:]+)" % re.escape(runner.REPO.rstrip("/")), text)
    return m.group(1) if m else "?"


def _run_batch(argv, env, items, timeout, cwd=None):
    """feed the jobs to one monitored worker process; returns (records, rc, stderr).
    records is shorter than items when the process died in flight."""
    data = "".join(json.dumps(it["job"]) + "\n" for it in items)
    try:
        p = subprocess.run(argv, input=data.encode(), capture_output=True, env=env, timeout=timeout, cwd=cwd)
    except subprocess.TimeoutExpired as e:
        out = e.stdout or b""
        recs = [json.loads(l) for l in out.split(b"\n") if l.startswith(b"{") and l.endswith(b"}")]
        return recs, "timeout", (e.stderr or b"").decode("utf-8", "replace")
    recs = []
    for l in p.stdout.split(b"\n"):
        if l.startswith(b"{"):
            try:
                recs.append(json.loads(l))
            except ValueError:
                break
    return recs, p.returncode, p.stderr.decode("utf-8", "replace")


def _summ(rec, want_raw=False):
    if "ok" in rec:
        return {"ok": rec["ok"] if isinstance(rec["ok"], str) and len(rec["ok"]) < 4000 else None}
    if "err" in rec:
        return {"err": rec["err"].get("kind")}
    if want_raw and not any(k in rec for k in ("panic", "crash", "timeout")):
        return {"raw": runner.h64(json.dumps(rec, sort_keys=True))}
    return None


def _compare(acc, prop, kind, it, rec):
    exp = it["expect"]
    if "panic" in rec:
        acc.inc("sanit_%s_panics" % kind)
        if prop in CRASH_PROPS:
            from .common import panic_sig
            f, m = panic_sig(rec["panic"])
            acc.violation({"oracle": "panic", "build": kind, "site": f, "msg": m}, {"job": it["job"], "observed": rec["panic"]})
        return
    got = _summ(rec, want_raw="raw" in exp)
    if got == exp:
        acc.inc("sanit_%s_same_outcome" % kind)
        acc.add("sanit_distinct_" + kind, runner.h64(it["job"]))
    else:
        acc.violation({"oracle": "outcome-differs-under-monitor", "monitor": kind,
                       "rel": list(exp)[0], "monitored": list(got)[0] if got else "none"},
                      {"job": it["job"], "env": it["env"], "rel": exp, "monitored": got or str(rec)[:400]})


REPORT_RE = {
    "asan": re.compile(r"ERROR: (AddressSanitizer|LeakSanitizer): ([^\n]*)"),
    "memcheck": re.compile(r"==\d+== (Invalid (?:read|write|free)[^\n]*|Conditional jump[^\n]*|Use of uninitialised[^\n]*|"
                           r"Mismatched free[^\n]*|Source and destination overlap[^\n]*|Syscall param[^\n]*|"
                           r"[\d,]+ bytes in [\d,]+ blocks are definitely lost[^\n]*|Process terminating with[^\n]*SIG(?:SEGV|BUS|ILL)[^\n]*)"),
    "miri": re.compile(r"error: (Undefined Behavior[^\n]*|memory leaked[^\n]*|unsupported operation[^\n]*|[^\n]*)"),
}


def _reports(kind, stderr):
    out = []
    for m in REPORT_RE[kind].finditer(stderr):
        what = m.group(m.lastindex)
        if kind == "miri" and ("aborting due to" in what or "could not compile" in what):
            continue
        tail = stderr[m.start():m.start() + 3000]
        out.append((re.sub(r"0x[0-9a-fA-F]+|\d[\d,]*", "N", what)[:90], _first_repo_frame(tail), tail[:1500]))
    return out


def _monitor(kind):
    """-> (argv, env, cwd, per_job_timeout_s, batch_size) or raises Broken"""
    env = dict(runner.ENV_BASE)
    if kind == "asan":
        b = runner.build("asan")["jv-worker"]
        env["ASAN_OPTIONS"] = ("detect_leaks=1:halt_on_error=1:abort_on_error=0:exitcode=98:detect_stack_use_after_return=0:"
                               "allocator_may_return_null=1:max_allocation_size_mb=8192")
        env["LSAN_OPTIONS"] = "exitcode=98"
        return [b], env, None, 20, 60
    if kind == "memcheck":
        b = runner.build("rel")["jv-worker"]
        return ["valgrind", "--tool=memcheck", "-q", "--error-exitcode=97", "--leak-check=full",
                "--show-leak-kinds=definite", "--errors-for-leak-kinds=definite", "--num-callers=25", b], env, None, 60, 25
    if kind == "miri":
        cmd, menv = build_miri_worker()
        return cmd, menv, runner.HARNESS, 240, 12
    raise runner.Broken("unknown monitor " + kind)


def build_miri_worker():
    key = ("miri-worker",)
    if key in runner._built:
        return runner._built[key]
    lock = runner._flock("cargo-miri-worker")
    try:
        runner._sync_lock()
        env = dict(runner.ENV_BASE)
        # deterministic floats: by default Miri perturbs the results of sin / exp / pow ... by a few ulp on purpose, which
        # the same-outcome oracle would report as a difference from the native build
        env["MIRIFLAGS"] = "-Zmiri-disable-isolation -Zmiri-tree-borrows -Zmiri-deterministic-floats"
        cmd = ["cargo", "+nightly", "miri", "run", "--offline", "--quiet", "--target-dir", os.path.join(runner.BUILD, "miri-worker"),
               "--bin", "jv-worker"]
        p = subprocess.run(cmd, input=b'{"op":"eval","code":"1+1"}\n', capture_output=True, env=env, cwd=runner.HARNESS, timeout=3000)
        if p.returncode != 0 or b'"ok":"2"' not in p.stdout:
            raise runner.Broken("Miri run of jv-worker failed: " + p.stderr.decode("utf-8", "replace")[-1500:])
        runner._built[key] = (cmd, env)
        return cmd, env
    finally:
        lock.close()


def _pass(acc, prop, kind, items, jobs_parallel):
    try:
        argv, env, cwd, tmo, bsize = _monitor(kind)
    except runner.Broken as e:
        acc.inconclusive.append({"why": "%s monitor unavailable: %s" % (kind, str(e)[:300])})
        return
    if kind == "miri":
        # building the std object costs Miri ~10 s: jobs that do not configure the state share one
        shared = []
        for it in items:
            j = it["job"]
            if j.get("op", "eval") == "eval" and not any(k in j for k in ("ext", "tla", "no_std")):
                it = dict(it, job=dict(j, state_id="m"))
            shared.append(it)
        items = shared
    bsize = max(3 if kind == "miri" else 8, min(bsize, -(-len(items) // jobs_parallel)))
    batches = [items[i:i + bsize] for i in range(0, len(items), bsize)]

    def one(batch):
        a = runner.Acc()
        todo = list(batch)
        while todo:
            e2 = dict(env)
            e2.update(todo[0]["env"])
            same_env = [it for it in todo if it["env"] == todo[0]["env"]]
            rest = [it for it in todo if it["env"] != todo[0]["env"]]
            recs, rc, err = _run_batch(argv, e2, same_env, tmo * len(same_env) + 120, cwd)
            a.inc("sanit_%s_processes" % kind)
            for it, rec in zip(same_env, recs):
                a.inc("sanit_%s_jobs" % kind)
                _compare(a, prop, kind, it, rec)
            reps = _reports(kind, err)
            k = len(recs)
            after_panic = bool(recs) and "panic" in recs[-1]      # the worker exits by itself after reporting a panic
            died = k < len(same_env) and not after_panic
            culprit = same_env[k] if died else None
            if rc == "timeout":
                died = k < len(same_env) and not after_panic
                a.inc("sanit_%s_watchdog" % kind)
                a.inconclusive.append({"why": "%s watchdog" % kind, "job": str(same_env[k]["job"])[:300] if died else None})
            elif died and "memory allocation of" in err and "failed" in err:
                a.inc("sanit_%s_resource_class" % kind)
            elif reps:
                for what, frame, tail in reps[:3]:
                    a.violation({"oracle": "sanitizer-report", "monitor": kind, "what": what, "frame": frame},
                                {"job_in_flight": culprit["job"] if culprit else None,
                                 "batch": None if culprit else [it["job"] for it in same_env][:30],
                                 "env": todo[0]["env"], "report": tail})
            elif died:
                a.violation({"oracle": "died-under-monitor", "monitor": kind, "rc": rc},
                            {"job_in_flight": culprit["job"], "stderr": err[-1500:]})
            elif rc not in (0, 86):
                a.inconclusive.append({"why": "%s exit code %s without a report" % (kind, rc), "stderr": err[-600:]})
            if k < len(same_env):
                rest = same_env[(k if after_panic else k + 1):] + rest
            todo = rest
        return a

    with concurrent.futures.ThreadPoolExecutor(max_workers=jobs_parallel) as ex:
        for a in ex.map(one, batches):
            acc.merge(a)


def run_pass(acc, prop, tier, seed, kinds=("asan", "memcheck", "miri"), quick=None, thorough=None, extra_items=()):
    """replay a sample of runner.LAST_CORPUS (+ extra_items) under each monitor.
    quick / thorough: {kind: number of jobs}"""
    sizes = (quick if tier == "quick" else thorough) or {}
    extra_items = list(extra_items)
    if any(it["expect"] is None for it in extra_items):
        w = runner.Worker(runner.build("rel")["jv-worker"], timeout=30)
        keep = []
        for it in extra_items:
            if it["expect"] is None:
                it["expect"] = _summ(w.call(it["job"]), want_raw=it["job"].get("op", "eval") != "eval")
            if it["expect"] is not None:
                keep.append(it)
        w.close()
        extra_items = keep
    corpus = _dedupe(list(extra_items) + runner.LAST_CORPUS)
    rng = runner.rng_for(seed, "sanit", prop)
    rng.shuffle(corpus)
    # extra items (directed at the unsafe code of the property) always go first
    extras = _dedupe(list(extra_items))
    keys = {runner.h64([it["job"], it["env"]]) for it in extras}
    corpus = extras + [it for it in corpus if runner.h64([it["job"], it["env"]]) not in keys]
    acc.n["sanit_corpus"] = len(corpus)
    for kind in kinds:
        nj = sizes.get(kind, 0)
        if nj <= 0 or not corpus:
            continue
        t = time.time()
        _pass(acc, prop, kind, corpus[:nj], runner.NCPU)
        acc.n["sanit_%s_wall_s" % kind] = int(time.time() - t)
    acc.add("sanit_monitors", ",".join(k for k in kinds if sizes.get(k, 0) > 0))


def item(code, expect=None, **job):
    """directed job for a sanitizer pass; expect=None -> only reports count, outcome taken from rel"""
    j = {"op": "eval", "code": code}
    j.update(job)
    return {"job": j, "env": {}, "expect": expect}
