"""Shared machinery: instrumented builds, worker processes, sharding, verdicts,
known-findings matching and evidence writing.

Verdicts are three-valued.  A shard returns counters plus three lists:
  violations   - oracle refuted the property on an observed execution (witness kept)
  known        - same, but the witness matches a signature in known_findings.json
  inconclusive - watchdog fired / worker could not run the case (never a violation)
"""
import fcntl
import hashlib
import json
import multiprocessing as mp
import os
import random
import resource
import select
import signal
import subprocess
import sys
import time
import traceback

VERIF = os.path.dirname(os.path.dirname(os.path.abspath(__file__)))
REPO = os.environ.get("VERIF_REPO", "/repo")
BUILD = os.path.join(VERIF, ".build")


def _crate_dir(name):
    """harness crate directory.  The committed crates name /repo in their path dependencies (that is what the
    registered checks build against).  Only when VERIF_REPO points elsewhere - background sweeps against a snapshot
    of the repository - a copy with rewritten paths is used."""
    src = os.path.join(VERIF, name)
    if REPO == "/repo":
        return src
    import shutil
    dst = os.path.join(BUILD, "alt-" + name)
    os.makedirs(BUILD, exist_ok=True)
    shutil.copytree(src, dst, dirs_exist_ok=True, ignore=shutil.ignore_patterns("target", "Cargo.lock"))
    ct = os.path.join(dst, "Cargo.toml")
    with open(ct) as f:
        t = f.read().replace('"/repo/', '"' + REPO.rstrip("/") + "/")
    with open(ct, "w") as f:
        f.write(t)
    return dst


HARNESS = _crate_dir("harness")
NCPU = int(os.environ.get("VERIF_JOBS", "16"))

ENV_BASE = dict(os.environ)
ENV_BASE.update({"CARGO_NET_OFFLINE": "true", "CARGO_TERM_COLOR": "never"})


class Broken(Exception):
    """The check itself could not do its job (build failure, monitors saw nothing)."""


# ------------------------------------------------------------------ builds

def _flock(name):
    os.makedirs(BUILD, exist_ok=True)
    f = open(os.path.join(BUILD, name + ".lock"), "w")
    fcntl.flock(f, fcntl.LOCK_EX)
    return f


def _run(cmd, cwd, env=None, what="build"):
    p = subprocess.run(cmd, cwd=cwd, env=env or ENV_BASE, stdout=subprocess.PIPE,
                       stderr=subprocess.STDOUT, text=True)
    if p.returncode != 0:
        sys.stderr.write(p.stdout[-6000:])
        raise Broken("%s failed: %s" % (what, " ".join(cmd)))
    return p.stdout


def _sync_lock():
    src = os.path.join(REPO, "Cargo.lock")
    dst = os.path.join(HARNESS, "Cargo.lock")
    try:
        if open(src, "rb").read() == open(dst, "rb").read():
            return
    except FileNotFoundError:
        pass
    import shutil
    shutil.copyfile(src, dst)


_built = {}


def build(profile, features=None, bins=("jv-worker",)):
    """Build harness binaries for an instrumented profile from /repo's working tree.
    profile: rel | chk | asan.  Returns {bin: path}."""
    key = (profile, features, tuple(bins))
    if key in _built:
        return _built[key]
    lock = _flock("cargo-" + profile + ("-" + features if features else ""))
    try:
        _sync_lock()
        tdir = os.path.join(BUILD, profile + ("-" + features if features else ""))
        env = dict(ENV_BASE)
        env["CARGO_TARGET_DIR"] = tdir
        cmd = ["cargo"]
        outdir = None
        if profile in ("rel", "chk"):
            cmd += ["build", "--offline", "--profile", profile]
            outdir = os.path.join(tdir, profile)
        elif profile == "asan":
            cmd = ["cargo", "+nightly", "build", "--offline", "--profile", "chk",
                   "--target", "x86_64-unknown-linux-gnu"]
            env["RUSTFLAGS"] = "-Zsanitizer=address -Cforce-frame-pointers=yes"
            outdir = os.path.join(tdir, "x86_64-unknown-linux-gnu", "chk")
        else:
            raise Broken("unknown profile " + profile)
        if features:
            cmd += ["--features", features]
        for b in bins:
            cmd += ["--bin", b]
        _run(cmd, HARNESS, env, "harness build (%s)" % profile)
        res = {b: os.path.join(outdir, b) for b in bins}
        for p in res.values():
            if not os.path.exists(p):
                raise Broken("built binary missing: " + p)
        _built[key] = res
        return res
    finally:
        lock.close()


INTERN = _crate_dir("harness-intern")


def build_intern(profile):
    """jv-intern (interner op-sequence driver) for rel | chk; returns the binary path.
    profile 'miri' returns the command prefix that runs it under Miri."""
    key = ("intern", profile)
    if key in _built:
        return _built[key]
    lock = _flock("cargo-intern-" + profile)
    try:
        import shutil
        shutil.copyfile(os.path.join(REPO, "Cargo.lock"), os.path.join(INTERN, "Cargo.lock"))
        env = dict(ENV_BASE)
        if profile == "miri":
            tdir = os.path.join(BUILD, "intern-miri")
            env["MIRIFLAGS"] = "-Zmiri-disable-isolation"
            cmd = ["cargo", "+nightly", "miri", "run", "--offline", "--target-dir", tdir, "--"]
            # build once (and check that Miri is usable) with a trivial history
            p = subprocess.run(cmd + ["replay", "1", "12"], cwd=INTERN, env=env, stdout=subprocess.PIPE, stderr=subprocess.PIPE, text=True)
            if p.returncode != 0 or '"violation":null' not in p.stdout:
                sys.stderr.write(p.stderr[-4000:])
                raise Broken("Miri run of the interner driver failed")
            res = (cmd, env)
        else:
            tdir = os.path.join(BUILD, "intern")
            _run(["cargo", "build", "--offline", "--profile", profile, "--target-dir", tdir], INTERN, env, "interner driver build (%s)" % profile)
            res = os.path.join(tdir, profile, "jv-intern")
            if not os.path.exists(res):
                raise Broken("built binary missing: " + res)
        _built[key] = res
        return res
    finally:
        lock.close()


def build_cli():
    """Build the repository's own executables and C library from the working tree."""
    if "cli" in _built:
        return _built["cli"]
    lock = _flock("cargo-cli")
    try:
        tdir = os.path.join(BUILD, "cli")
        _run(["cargo", "build", "--offline", "-p", "jrsonnet", "-p", "jrsonnet-fmt",
              "-p", "jrsonnet-deps", "-p", "libjsonnet", "--target-dir", tdir],
             REPO, ENV_BASE, "CLI build")
        d = os.path.join(tdir, "debug")
        res = {"jrsonnet": os.path.join(d, "jrsonnet"),
               "jrsonnet-fmt": os.path.join(d, "jrsonnet-fmt"),
               "jrsonnet-deps": os.path.join(d, "jrsonnet-deps"),
               "libdir": d}
        for k in ("jrsonnet", "jrsonnet-fmt", "jrsonnet-deps"):
            if not os.path.exists(res[k]):
                raise Broken("CLI binary missing: " + res[k])
        _built["cli"] = res
        return res
    finally:
        lock.close()


# ------------------------------------------------------------------ workers

def _limits(gib=8):
    # address-space cap: a program denoting a value that does not fit in memory ends
    # in an allocation-failure abort which is classed `resource`, not a crash
    def f():
        b = int(gib * 1024 ** 3)
        resource.setrlimit(resource.RLIMIT_AS, (b, b))
        resource.setrlimit(resource.RLIMIT_CORE, (0, 0))
    return f


# ------------------------------------------------------------------ job corpus
# Every stateless job a check sends to a `rel` worker is offered to a per-shard reservoir;
# mon/sanit.py replays the merged sample under ASan, valgrind memcheck and Miri.
CORPUS = None          # reservoir of the current (forked) shard process
CORPUS_CAP = 150
_corpus_seen = 0
LAST_CORPUS = []       # merged in the parent by shard_map


def _corpus_offer(worker, job, rec):
    global _corpus_seen
    if CORPUS is None or worker.wrapper:
        return
    if worker.cwd is not None and "import" in job.get("code", ""):
        return
    if job.get("state_id") == "s":
        # by convention state "s" is only a cache of the std object for stateless jobs
        job = {k: v for k, v in job.items() if k != "state_id"}
    if job.get("op", "eval") not in ("eval", "fmt", "parse", "lex") or "state_id" in job or "file" in job \
            or "jpath" in job or "fault" in job or "multi" in job or job.get("max_stack", 0) > 600:
        return
    if "ok" in rec:
        out = {"ok": rec["ok"] if isinstance(rec["ok"], str) and len(rec["ok"]) < 4000 else None}
    elif "err" in rec:
        out = {"err": rec["err"].get("kind")}
    elif job.get("op") in ("fmt", "parse", "lex") and "panic" not in rec and "crash" not in rec and "timeout" not in rec:
        out = {"raw": h64(json.dumps(rec, sort_keys=True))}
    else:
        return
    if any(isinstance(v, str) and len(v) > 20000 for v in job.values()):
        return
    _corpus_seen += 1
    item = {"job": job, "env": {k: v for k, v in worker.env.items() if k.startswith("JRSONNET_")}, "expect": out}
    if len(CORPUS) < CORPUS_CAP:
        CORPUS.append(item)
    else:
        # deterministic reservoir (keyed on the job itself, so a run is reproducible)
        j = h64([_corpus_seen, job.get("code", "")[:200]]) % _corpus_seen
        if j < CORPUS_CAP:
            CORPUS[j] = item


class Worker:
    """One jv-worker process.  call(job) -> record.  Record keys set by this class:
    `panic` (from the worker's panic monitor), `crash` (process died: signal / code,
    with stderr tail), `timeout` (watchdog fired; inconclusive)."""

    def __init__(self, binary, env=None, cwd=None, timeout=60.0, wrapper=None, limits=True, mem_gib=8):
        self.binary = binary
        self.env = dict(ENV_BASE)
        self.env.pop("JRSONNET_LEGACY_PARSER", None)
        if env:
            self.env.update(env)
        self.cwd = cwd
        self.timeout = timeout
        self.wrapper = wrapper or []
        self.limits = limits
        self.mem_gib = mem_gib
        self.p = None
        self.restarts = 0
        self.buf = b""

    def _start(self):
        self.stderr_path = "/tmp/jv-stderr-%d-%d" % (os.getpid(), id(self))
        self.errf = open(self.stderr_path, "wb")
        self.p = subprocess.Popen(self.wrapper + [self.binary], stdin=subprocess.PIPE,
                                  stdout=subprocess.PIPE, stderr=self.errf, env=self.env,
                                  cwd=self.cwd, preexec_fn=_limits(self.mem_gib) if self.limits else None)
        self.buf = b""

    def _stderr_tail(self):
        try:
            self.errf.flush()
            with open(self.stderr_path, "rb") as f:
                d = f.read()
                if len(d) > 1600:
                    d = d[:800] + b"\n...\n" + d[-800:]
                return d.decode("utf-8", "replace")
        except Exception:
            return ""

    def close(self):
        if self.p is not None:
            try:
                self.p.stdin.close()
            except Exception:
                pass
            try:
                self.p.wait(timeout=5)
            except Exception:
                self.p.kill()
                self.p.wait()
            self.p = None
            try:
                self.errf.close()
                os.unlink(self.stderr_path)
            except Exception:
                pass

    def kill(self):
        if self.p is not None:
            self.p.kill()
            self.p.wait()
            tail = self._stderr_tail()
            self.p = None
            try:
                self.errf.close()
                os.unlink(self.stderr_path)
            except Exception:
                pass
            return tail
        return ""

    def _readline(self, timeout):
        deadline = time.monotonic() + timeout
        fd = self.p.stdout.fileno()
        while b"\n" not in self.buf:
            left = deadline - time.monotonic()
            if left <= 0:
                return None
            r, _, _ = select.select([fd], [], [], left)
            if not r:
                return None
            chunk = os.read(fd, 1 << 16)
            if not chunk:
                return b""
            self.buf += chunk
        line, self.buf = self.buf.split(b"\n", 1)
        return line

    def call(self, job, timeout=None):
        if self.p is None:
            self._start()
        data = (json.dumps(job) + "\n").encode()
        try:
            self.p.stdin.write(data)
            self.p.stdin.flush()
        except BrokenPipeError:
            pass
        line = self._readline(timeout or self.timeout)
        if line is None:
            self.kill()
            self.restarts += 1
            return {"timeout": True}
        if line == b"":
            rc = self.p.wait()
            tail = self._stderr_tail()
            self.kill()
            self.restarts += 1
            return {"crash": {"rc": rc, "signal": -rc if rc < 0 else None, "stderr": tail}}
        rec = json.loads(line)
        _corpus_offer(self, job, rec)
        if "panic" in rec:
            # worker exits by itself after reporting a panic (thread-locals may be poisoned)
            try:
                self.p.wait(timeout=10)
            except Exception:
                pass
            self.kill()
            self.restarts += 1
        return rec


def classify_crash(rec):
    """resource | crash - an allocation-failure abort under RLIMIT_AS is the documented
    `resource` class (the value does not fit in memory), everything else is a crash."""
    c = rec.get("crash") or {}
    err = c.get("stderr", "")
    if "memory allocation of" in err and "failed" in err:
        return "resource"
    return "crash"


# ------------------------------------------------------------------ sharding

def _shard_entry(fn, idx, n, args, q):
    global CORPUS, _corpus_seen
    try:
        signal.signal(signal.SIGINT, signal.SIG_DFL)
        CORPUS = []
        _corpus_seen = 0
        res = fn(idx, n, *args)
        q.put((idx, "ok", (res, CORPUS)))
    except BaseException:
        q.put((idx, "exc", traceback.format_exc()))


def shard_map(fn, args=(), nshards=None):
    """Run fn(shard_idx, nshards, *args) in forked processes; returns list of results."""
    n = nshards or NCPU
    ctx = mp.get_context("fork")
    q = ctx.Queue()
    procs = [ctx.Process(target=_shard_entry, args=(fn, i, n, args, q)) for i in range(n)]
    for p in procs:
        p.start()
    out = [None] * n
    got = 0
    while got < n:
        try:
            idx, st, res = q.get(timeout=5)
        except Exception:
            if not any(p.is_alive() for p in procs) and q.empty():
                raise Broken("shard process died without reporting")
            continue
        if st != "ok":
            for p in procs:
                p.terminate()
            raise Broken("shard %d raised:\n%s" % (idx, res))
        out[idx] = res[0]
        LAST_CORPUS.extend(res[1])
        got += 1
    for p in procs:
        p.join()
    return out


class Acc:
    """Per-shard accumulator, mergeable."""

    def __init__(self):
        self.n = {}            # counters
        self.sets = {}         # name -> set (distinct hashes / observed kinds)
        self.violations = []   # dicts {sig, witness}
        self.known = {}        # finding id -> [count, example]
        self.inconclusive = []
        self.samples = []
        self._vcount = {}

    def inc(self, k, d=1):
        self.n[k] = self.n.get(k, 0) + d

    def add(self, name, item):
        self.sets.setdefault(name, set()).add(item)

    def distinct(self, case):
        self.add("distinct", h64(case))

    def sample(self, s, cap=6):
        if len(self.samples) < cap:
            self.samples.append(s)

    def violation(self, sig, witness, per_sig=2, cap=300):
        """keep a few witnesses per distinct signature so one frequent defect cannot
        hide a rarer one"""
        self.inc("violations_raw")
        key = json.dumps(sig, sort_keys=True, default=str)
        c = self._vcount.get(key, 0)
        self._vcount[key] = c + 1
        if c < per_sig and len(self.violations) < cap:
            self.violations.append({"sig": sig, "witness": witness})

    def merge(self, o):
        for k, v in o.n.items():
            self.n[k] = self.n.get(k, 0) + v
        for k, v in o.sets.items():
            self.sets.setdefault(k, set()).update(v)
        self.violations += o.violations
        for k, v in o.known.items():
            if k in self.known:
                self.known[k][0] += v[0]
            else:
                self.known[k] = v
        self.inconclusive += o.inconclusive[:20]
        for s in o.samples:
            self.sample(s, cap=10)
        return self


def h64(x):
    if not isinstance(x, (bytes, str)):
        x = json.dumps(x, sort_keys=True, default=str)
    if isinstance(x, str):
        x = x.encode("utf-8", "surrogatepass")
    return int.from_bytes(hashlib.blake2b(x, digest_size=8).digest(), "big")


def rng_for(seed, *parts):
    return random.Random(h64([seed] + [str(p) for p in parts]))


def chunks(seq, idx, n):
    """Deterministic shard slice of a list / range."""
    return seq[idx::n]


# ------------------------------------------------------------------ findings

def load_findings():
    p = os.path.join(VERIF, "known_findings.json")
    with open(p) as f:
        data = json.load(f)
    return data


def match_finding(findings, prop, sig):
    """sig: dict of discriminating features of a witness.  A finding matches when all
    of its `match` keys are present in sig with equal values (lists = any-of)."""
    for f in findings.get("open", []):
        if f["property"] != prop:
            continue
        ok = True
        for k, v in f["match"].items():
            if k.endswith("_re"):
                import re
                sv = sig.get(k[:-3])
                if not (isinstance(sv, str) and re.search(v, sv)):
                    ok = False
                    break
                continue
            sv = sig.get(k)
            if isinstance(v, list):
                if sv not in v:
                    ok = False
            elif sv != v:
                ok = False
            if not ok:
                break
        if ok:
            return f
    return None


# ------------------------------------------------------------------ finishing

def finish(prop, tier, seed, level, acc, t0, rule, assumptions=(), extra=None,
           min_events=1, exhaustive=None, events_key="evaluations"):
    """Classify violations against known findings, write evidence and replay files,
    print the verdict lines and return the process exit code."""
    findings = load_findings()
    new = []
    known = dict(acc.known)
    for v in acc.violations:
        f = match_finding(findings, prop, v["sig"])
        if f is None:
            new.append(v)
        else:
            k = known.setdefault(f["id"], [0, v])
            k[0] += 1
    evaluations = acc.n.get(events_key, 0)
    distinct = len(acc.sets.get("distinct", ()))
    cov = {
        "evaluations": evaluations,
        "distinct_nontrivial": distinct,
        "rule": rule,
        "samples": acc.samples[:10] or ["<none>"],
        "counters": {k: acc.n[k] for k in sorted(acc.n)},
        "observed": {k: (sorted(map(str, v))[:80] if len(v) <= 400 else len(v))
                     for k, v in acc.sets.items() if k != "distinct"},
        "inconclusive": len(acc.inconclusive),
        "inconclusive_examples": acc.inconclusive[:5],
        "known_findings_hit": {k: v[0] for k, v in known.items()},
    }
    if exhaustive is not None:
        cov["exhaustive"] = bool(exhaustive)
    if extra:
        cov.update(extra)
    ev = {
        "property_id": prop, "tier": tier, "seed": seed, "level": level,
        "coverage": cov,
        "assumptions": list(assumptions),
        "wall_s": round(time.time() - t0, 2),
        "violations": len(new),
    }
    os.makedirs(os.path.join(VERIF, "evidence"), exist_ok=True)
    with open(os.path.join(VERIF, "evidence", prop + ".json"), "w") as f:
        json.dump(ev, f, indent=1, sort_keys=True, default=str)
        f.write("\n")
    for fid, (cnt, ex) in sorted(known.items()):
        fd = next(x for x in findings["open"] if x["id"] == fid)
        print("KNOWN-FINDING: property=%s %s [%s; hit %d times]" % (prop, fd["what"], fid, cnt))
    rc = 0
    if new:
        os.makedirs(os.path.join(VERIF, "replays"), exist_ok=True)
        summ = {}
        for v in new:
            key = json.dumps(v["sig"], sort_keys=True, default=str)
            summ.setdefault(key, [0, v["witness"]])[0] += 1
        with open(os.path.join(VERIF, "replays", "%s-%s-%d-summary.json" % (prop, tier, seed)), "w") as f:
            json.dump([{"sig": json.loads(k), "kept_witnesses": c, "witness": w}
                       for k, (c, w) in sorted(summ.items())], f, indent=1, default=str)
        seen = set()
        k = 0
        for v in new:
            key = json.dumps(v["sig"], sort_keys=True, default=str)
            if key in seen:
                continue
            seen.add(key)
            path = os.path.join(VERIF, "replays", "%s-%s-%d-%d.json" % (prop, tier, seed, k))
            k += 1
            with open(path, "w") as f:
                json.dump({"property": prop, "tier": tier, "seed": seed, **v}, f, indent=1,
                          default=str)
            print("VIOLATION property=%s replay=%s" % (prop, path))
            print("  signature: %s" % key[:600])
            if k >= 12:
                break
        rc = 1
    if evaluations < min_events or distinct < 2:
        print("BROKEN: check %s observed too little (%d events, %d distinct) - not a verdict"
              % (prop, evaluations, distinct))
        rc = rc or 2
    print("%s %s seed=%d: %d events, %d distinct non-trivial, %d new violations, %d known-finding "
          "signatures, %d inconclusive, %.1fs" %
          (prop, tier, seed, evaluations, distinct, len(new), len(known), len(acc.inconclusive),
           time.time() - t0))
    return rc
