"""Shared by C19 / C20: corpus of valid programs for the formatter, comment decoration,
S-expression reading and the documented sugar normalisation."""
import json
import re

from . import tokseq

COMMENT_KINDS = ("SINGLE_LINE_SLASH_COMMENT", "SINGLE_LINE_HASH_COMMENT", "MULTI_LINE_COMMENT")

EXTRA_PROGRAMS = [
    # constructs named by the property: unary/binary operators, tailstrict, slices, comprehensions,
    # all string forms, text blocks with tabs and blank lines, multi-binding locals, asserts,
    # object locals, methods, imports
    "local a = 1, b = 2, c = a + b; [a, b, c]",
    "local f(x) = x * 2, g = function(y) y + 1; f(g(1)) tailstrict",
    "{ local x = 1, local y(z) = z, a: x, b: y(2), c(p, q=3): p + q, d:: 4, e::: 5, f+: 6, g+:: 7, h+::: 8 }",
    "{ assert self.a == 1 : 'msg', assert true, a: 1 }",
    "{ ['k' + i]: i for i in [1, 2, 3] if i > 1 }",
    "[[i, j] for i in [1, 2] for j in [3, 4] if i != j if j > 0]",
    "local s = 'abcdef'; [s[1:3], s[:2], s[2:], s[::2], s[1:5:2], s[1::2], s[:4:3]]",
    "local a = [1, 2, 3, 4, 5]; a[1:3] + a[:2] + a[2:] + a[::2]",
    "-1 + +2 - !true + ~3",
    "1 + 2 * 3 - 4 / 5 % 6 << 1 >> 2 & 3 ^ 4 | 5",
    "1 < 2 && 2 <= 3 || 3 > 4 && 4 >= 5 && 1 == 1 && 1 != 2 && 'a' in {a: 1}",
    "(1 + 2) * 3 - (4 - (5 - 6))",
    "1 - (2 - 3) - 4",
    "2 * (3 + 4) * 5",
    "!(true && false) || !true",
    "-(1 + 2)",
    "(-1) + 2",
    "(function(x) x)(1)",
    "({a: 1}).a + ({a: 1} + {b: 2}).b",
    "(if true then [1] else [2])[0]",
    "(local a = 1; a) + 1",
    "if true then if false then 1 else 2 else 3",
    "if true then 1 else if false then 2 else 3",
    "error 'x' + 'y'",
    "assert true : 'm'; assert 1 == 1; 1",
    "import 'a.libsonnet'",
    "importstr 'a.txt'",
    "importbin 'a.bin'",
    "(import 'a.libsonnet').x + (import 'b.libsonnet')(1)",
    "\"double \\\" quote\" + 'single \\' quote' + @\"verb \"\" atim\" + @'verb '' atim'",
    "\"esc \\n \\t \\\\ \\u00e9 \\/\"",
    "'é漢😀'",
    "|||\n  plain\n  lines\n|||",
    "|||\n\ttab indented\n\t\tdeeper\n|||",
    "|||\n  with\n\n  blank\n\n\n  lines\n|||",
    "|||-\n  chomped\n|||",
    "|||\n  first\n    \n  \t\n  last\n|||",
    "|||\n  trailing spaces   \n  \n   indented more\n\n|||",
    "{ a: |||\n    x\n      \n    y\n  ||| }",
    "@'verbatim\nwith newline and\ttab'",
    "local a = [1, 2, 3, 4, 5, 6]; [a[1::2], a[::3], a[:2:], a[1:5:2], a[:], a[::]]",
    "local s = 'abcdefgh'; s[2::3] + s[::2] + s[1::]",
    "{ a: |||\n    nested block\n  |||, b: 1 }",
    "local o = { a: 1 }; o { b: 2 } { c: 3 }",
    "{ a: 1 } + { a+: 2 } + { b: super.a }",
    "{ a: { b: { c: { d: 1 } } } }.a.b.c.d",
    "{ 'quoted key': 1, \"dq key\": 2, plain: 3, 'with space': 4, ['comp' + 'uted']: 5 }",
    "local x = { f(a, b=2, c=a + b):: a + b + c }; x.f(1) + x.f(1, c=3) + x.f(b=1, a=2)",
    "std.map(function(x) x * 2, [1, 2, 3])",
    "std.foldl(function(acc, x) acc + x, [1, 2, 3], 0)",
    "function(a, b=1) a + b",
    "[]",
    "{}",
    "[[], {}, [[]], {a: {}}]",
    "null",
    "[true, false, null, 1, 1.5, 1e10, 1e-5, 0.1, 'str']",
    "self",
    "$",
    "{ a: $.b, b: self.c, c: 1, d: { e: $.c, f: self.e } }",
    "local a = 1; local b = 2; local c = 3; a + b + c",
    "[1, 2, 3][0]",
    "{ a: 1 }['a']",
    "x.y.z[1][2].w",
    "f(1)(2)(3)",
    "f(a=1, b=2)",
    "f(1, b=2,)",
    "a { b: 1 }",
    "local f(a,) = a; f(1,)",
    # chomped text blocks with trailing blank lines; tab-led lines inside nested text blocks
    "|||-\n  a\n\n|||",
    "|||-\n  b\n\n\n|||",
    "{ x: |||-\n    c\n\n    d\n\n\n\n  ||| }",
    "{ a: { b: { c: |||\n        first\n        \tsecond\n        \t\tthird\tend\n      ||| } } }",
    "[|||\n  \tx\n|||, |||-\n  y\n\n\n|||]",
    # object comprehensions with several specs; field values that are functions, with and without `+`
    "local xs = ['a', 'b']; { [k]: 1 for k in xs if k != 'b' }",
    "local xs = ['a', 'b'], ys = [1]; { [k + y]: y for k in xs for y in ys if y > 0 if k != 'b' }",
    "{ [k]: v for k in ['a'] for v in [1, 2] if v > 1 }",
    "local xs = [1, 2]; [x for x in xs if x > 1 for y in xs if y > 0]",
    "{ f: function(x) x + 1, g:: function(x, y=2) x + y, h::: function() 1 }",
    "{ f: 1 } + { f+: function(x) x }",
    "{ f:: 1 } + { f+:: function(x, y=1) [x, y], g+::: function() 0 }",
    "{ local f = function(x) x, a: f(1), m(x): x, n(x, y=1):: x + y }",
]


def corpus():
    return list(dict.fromkeys(tokseq.VALID_PROGRAMS + EXTRA_PROGRAMS))


def generated(seed, idx, count):
    """closed programs from the type-directed generator (all string literal forms, slices,
    comprehensions, objects with locals / asserts / methods ...), printed with minimal parentheses"""
    from .gen import prog
    from .ref import jast
    from . import runner
    out = []
    for i in range(count):
        g = prog.Gen(runner.rng_for(seed, "fmt-gen", idx, i), ill=0.0, err=0.01, max_depth=4)
        out.append(jast.to_source(g.program()))
    return out


def wide_programs():
    """lines near the 100-column limit where layout decisions flip"""
    out = []
    for n in range(14, 34):
        out.append("[" + ", ".join("%d" % (1000 + i) for i in range(n)) + "]")
        out.append("{" + ", ".join("k%d: %d" % (i, i) for i in range(n // 2)) + "}")
        out.append("f(" + ", ".join("arg%d" % i for i in range(n // 2)) + ")")
        out.append("local x = " + " + ".join("v%d" % i for i in range(n)) + "; x")
        out.append("'" + "s" * (n * 4) + "' + '" + "t" * n + "'")
        out.append("local f(" + ", ".join("p%d=%d" % (i, i) for i in range(n // 2)) + ") = p0; f()")
        out.append("{ a: [" + ", ".join("'%s'" % ("e" * (i % 5 + 1)) for i in range(n)) + "], b: 1 }")
        out.append("if " + " && ".join("c%d" % i for i in range(n // 2)) + " then 1 else 2")
    # calls nested in objects / lists / conditionals whose one-line form crosses the limit at some width
    for n in range(14, 40, 2):
        key, x, y = "k" * 30, "x" * n, "y" * n
        out.append("{ %s: { b: ffff(%s, %s) } }" % (key, x, y))
        out.append("[{ %s: gggg(%s, [%s]) }]" % (key, x, y))
        out.append("{ %s: if cond then ffff(%s, %s) else null }" % (key, x, y))
        out.append("local v = { %s: [hh(%s), ii(%s, 1)] }; v" % (key, x, y))
    return out


COMMENTS = ["/* c */", "// c\n", "# c\n", "/* multi\n   line */", "/**/"]

# Comment positions the formatter does support (before an item, inline after an item, at the end of a list, around
# the whole program).  The known findings about dropped / moved comments are about *other* positions; at these
# positions a lost, moved or duplicated comment is reported under its own oracle name, which no finding matches.
SUPPORTED_COMMENT_PROGRAMS = [
    "{\n  @L before field\n  a: 1,\n  b: 2,\n}",
    "{\n  a: 1,  @L inline after field\n  b: 2,\n}",
    "{\n  @B\n  a: 1,\n}",
    "{\n  a: 1,\n  @L end of object\n}",
    "{\n  @L before\n  a: 1,\n  @L between\n  b: 2,\n}",
    "[\n  @L before element\n  1,\n  2,\n]",
    "[\n  1,  @L after element\n  2,\n]",
    "[\n  1,\n  2,\n  @L end of array\n]",
    "[\n  @B\n  1,\n  @B\n  2,\n]",
    "@L leading comment\n{ a: 1 }",
    "{ a: 1 }\n@L trailing comment\n",
    "@B\nlocal a = 1;\na",
    "{\n  local x = 1,  @L after object local\n  a: x,\n}",
    "{\n  @L before local\n  local x = 1,\n  a: x,\n}",
    "{\n  @L before assert\n  assert true,\n  a: 1,\n}",
    "f(\n  @L before arg\n  1,\n  2,\n)",
    "{\n  a: {\n    @L nested before\n    b: 1,  @L nested after\n  },\n}",
    "[\n  [\n    @L inner\n    1,\n  ],\n]",
    "{\n  a: 1,\n\n  @L after blank line\n  b: 2,\n}",
    "{\n  @L one\n  @L two\n  a: 1,\n}",
    "{\n  a: 1,  @B\n  b: 2,\n}",
    "{\n  a: [\n    1,  @L x\n  ],  @L y\n}",
    "{\n  [k]: 1  @L comp\n  for k in ['a']\n}",
    "local o = {\n  @L c\n  a: 1,\n};\no { @L ext\n  b: 2,\n}",
    "{\n  @L first\n  a: 1,  @L after a\n  @B\n  b: [\n    @L in array\n    1,  @L after 1\n    2,\n    @L end\n  ],\n  @L last\n}",
    # a comment as the only content of a bracket pair (the "end of the list" position of an empty list)
    "local now() = 1;\n{\n  a: now(@B),\n  b: now(\n    @L nothing to pass\n  ),\n}",
    "{\n  a: [\n    @L empty array\n  ],\n  b: {\n    @L empty object\n  },\n}",
    "local f() = 2;\nf(\n  @L no arguments\n) + f(@B)",
]


def supported_comment_programs(unspaced=False, empty_brackets=True):
    """unspaced=True: the same programs with comments that have no blank after the marker (`#x`, `/*x*/`, `/**/`),
    which the formatter re-spaces - a known finding of its own"""
    out = []
    variants = (("#x", "/*x*/"), ("//x", "/**/")) if unspaced else \
        (("// c", "/* c */"), ("# c", "/* c */"), ("// é 漢 \\ ' \"", "/* * / */"), ("//", "/* c */"))
    for t in SUPPORTED_COMMENT_PROGRAMS:
        # C20 leaves these out: a comment alone inside call parentheses is kept (C19 checks that) but gains a blank line per
        # pass - the recorded finding C20-comment-placement-not-idempotent (cores `f(/* c */)`, `f(// c\n)`)
        if not empty_brackets and t in SUPPORTED_COMMENT_PROGRAMS[-3:]:
            continue
        for line, block in variants:
            out.append(t.replace("@L", line).replace("@B", block))
    return list(dict.fromkeys(out))


def respaced(comments):
    """comment token sequence with one blank inserted after the opening marker and before `*/` where missing"""
    out = []
    for kind, text in comments:
        if kind == "MULTI_LINE_COMMENT":
            body = text[2:-2]
            if body != "":
                if not body[0].isspace():
                    body = " " + body
                if not body[-1].isspace():
                    body = body + " "
            text = "/*" + body + "*/"
        else:
            m = 1 if text.startswith("#") else 2
            if len(text) > m and not text[m].isspace():
                text = text[:m] + " " + text[m:]
        out.append((kind, text))
    return out


def decorate(text, tokens, rng, per_program):
    """yield variants of `text` with one comment inserted at a token boundary, and one with
    comments at every boundary.  tokens: [[kind, start, end, text]] from the real lexer."""
    bounds = sorted({t[1] for t in tokens} | {len(text.encode("utf-8"))})
    raw = text.encode("utf-8")
    picks = bounds if len(bounds) <= per_program else rng.sample(bounds, per_program)
    for b in picks:
        c = rng.choice(COMMENTS)
        yield (raw[:b] + (" " + c + " ").encode() + raw[b:]).decode("utf-8"), 1
    pieces = []
    last = 0
    k = 0
    for b in bounds:
        pieces.append(raw[last:b])
        pieces.append((" " + COMMENTS[k % 3] + " ").encode())
        k += 1
        last = b
    pieces.append(raw[last:])
    yield b"".join(pieces).decode("utf-8"), k


def comments_of(tokens):
    """comment token sequence (kind, text with trailing line end dropped)"""
    out = []
    for t in tokens:
        if t[0] in COMMENT_KINDS:
            out.append((t[0], t[3].rstrip("\r\n")))
    return out


# ----------------------------------------------------------------- S-expressions
_TOK = re.compile(r'\(|\)|"(?:[^"\\]|\\.)*"|[^\s()"]+')


def sexpr(text):
    toks = _TOK.findall(text)
    pos = 0

    def rd():
        nonlocal pos
        t = toks[pos]
        pos += 1
        if t == "(":
            lst = []
            while toks[pos] != ")":
                lst.append(rd())
            pos += 1
            return lst
        return t
    r = rd()
    return r


def normalise_sugar(t):
    """the two documented equivalences:
       local f = function(..) e  ==  local f(..) = e
       f: function(..) e         ==  f(..): e            (no `+`)"""
    if not isinstance(t, list):
        return t
    t = [normalise_sugar(x) for x in t]
    if t and t[0] == "bind" and len(t) == 3 and isinstance(t[2], list) and t[2] and t[2][0] == "fn" \
            and isinstance(t[1], str):
        return ["bindfn", t[1], t[2][1], t[2][2]]
    if t and t[0] == "field" and len(t) == 6 and t[4] == "noparams" and isinstance(t[5], list) \
            and t[5] and t[5][0] == "fn" and t[2] == "-":
        return ["field", t[1], t[2], t[3], t[5][1], t[5][2]]
    return t


def same_program(tree_a, tree_b):
    return normalise_sugar(sexpr(tree_a)) == normalise_sugar(sexpr(tree_b))
