"""Reference evaluator for the standard Jsonnet language, written from the language
specification (desugared core + object model with layers / super index / visibility
merge), operating on the generator's AST (mon/ref/jast.py) - no parser involved.

It produces (a) a value or "error", (b) the multiset of evaluated std.trace labels under the
memoisation granularity the specification implies: locals, arguments, array elements and
object fields per (object, field, defining layer) are evaluated at most once.

Where the specification does not pin an outcome the evaluator raises Abstain; such cases are
excluded from behavioural verdicts.
"""
import math
import sys

sys.setrecursionlimit(20000)

SAFE = 2.0 ** 53 - 1
MAX_DEPTH = 450


class JErr(Exception):
    """a Jsonnet runtime (or static) error"""


class Abstain(Exception):
    """outcome not fixed by the language documentation"""


class PyDefault:
    """default value of a builtin's optional parameter"""

    def __init__(self, v):
        self.v = v


class Thunk:
    __slots__ = ("expr", "env", "state", "val", "it")

    def __init__(self, expr, env, it):
        self.expr, self.env, self.it = expr, env, it
        self.state = 0  # 0 waiting, 1 pending, 2 done, 3 error

    @staticmethod
    def ready(v):
        t = Thunk(None, None, None)
        t.state, t.val = 2, v
        return t

    def force(self):
        if self.state == 2:
            return self.val
        if self.state == 3:
            raise self.val
        if self.state == 1:
            raise JErr("infinite recursion")
        self.state = 1
        try:
            v = self.it.ev(self.expr, self.env)
        except JErr as e:
            self.state, self.val = 3, e
            raise
        except Abstain:
            self.state = 0
            raise
        self.state, self.val = 2, v
        return v


class LazyFn(Thunk):
    """thunk computed by a Python closure"""
    __slots__ = ("fn",)

    def __init__(self, fn):
        Thunk.__init__(self, None, None, None)
        self.fn = fn

    def force(self):
        if self.state == 2:
            return self.val
        if self.state == 3:
            raise self.val
        if self.state == 1:
            raise JErr("infinite recursion")
        self.state = 1
        try:
            v = self.fn()
        except JErr as e:
            self.state, self.val = 3, e
            raise
        except Abstain:
            self.state = 0
            raise
        self.state, self.val = 2, v
        return v


class VArr:
    __slots__ = ("items",)

    def __init__(self, items):
        self.items = items  # list of Thunk


class VFn:
    __slots__ = ("params", "body", "env", "builtin")

    def __init__(self, params, body, env, builtin=None):
        self.params, self.body, self.env, self.builtin = params, body, env, builtin


class Layer:
    __slots__ = ("fields", "locals", "asserts", "env", "outermost", "omit", "omit_span", "comp_envs")

    def __init__(self, env, outermost):
        self.fields = {}    # name -> (plus, vis, params, expr, env_override|None)
        self.locals = []
        self.asserts = []
        self.env = env
        self.outermost = outermost
        self.omit = None        # names removed by std.objectRemoveKey ...
        self.omit_span = 0      # ... from this many layers directly below (the layers of its argument)
        self.comp_envs = None


class VObj:
    __slots__ = ("layers", "cache", "assert_state", "assert_err", "local_envs")

    def __init__(self, layers):
        self.layers = layers
        self.cache = {}
        self.assert_state = 0
        self.assert_err = None
        self.local_envs = {}

    def lookup(self, name, start=None):
        i = (len(self.layers) if start is None else start) - 1
        while i >= 0:
            L = self.layers[i]
            if L.omit is not None and name in L.omit:
                # the removed object behaves as its argument without the field: the argument's own layers are
                # skipped, layers further left (the object it was added to) are searched as usual
                i -= L.omit_span + 1
                continue
            if name in L.fields:
                return i
            i -= 1
        return None

    def all_names(self):
        names = []
        seen = set()
        for L in self.layers:
            for n in L.fields:
                if n not in seen:
                    seen.add(n)
                    names.append(n)
        return sorted(n for n in names if self.lookup(n) is not None)

    def visible(self, name):
        i = len(self.layers) - 1
        found = False
        while i >= 0:
            L = self.layers[i]
            if L.omit is not None and name in L.omit:
                i -= L.omit_span + 1
                continue
            f = L.fields.get(name)
            if f is not None:
                found = True
                if f[1] == "::":
                    return False
                if f[1] == ":::":
                    return True
            i -= 1
        return found

    def visible_names(self):
        return [n for n in self.all_names() if self.visible(n)]


def typeof(v):
    if v is None:
        return "null"
    if isinstance(v, bool):
        return "boolean"
    if isinstance(v, float):
        return "number"
    if isinstance(v, str):
        return "string"
    if isinstance(v, VArr):
        return "array"
    if isinstance(v, VObj):
        return "object"
    if isinstance(v, VFn):
        return "function"
    raise AssertionError(v)


def num_to_str(x):
    if x == int(x) and abs(x) < 1e15:
        return str(int(x)) if not (x == 0 and math.copysign(1, x) < 0) else "-0"
    r = repr(x)
    if "e" in r or "E" in r:
        raise Abstain("number spelling")
    return r


def finite(x):
    if not isinstance(x, float) or not math.isfinite(x):
        raise JErr("non-finite")
    return x


class Interp:
    def __init__(self, ext=None, memoise=True):
        self.traces = {}
        self.trace_order = []
        self.depth = 0
        self.ext = ext or {}
        self.std = self.make_std()

    # ------------------------------------------------------------ std subset
    def make_std(self):
        it = self

        def b(name, params, fn):
            return Thunk.ready(VFn([(p, None) for p in params], None, None, builtin=(name, fn)))

        def length(x):
            x = x.force()
            if isinstance(x, str):
                return float(len(x))
            if isinstance(x, VArr):
                return float(len(x.items))
            if isinstance(x, VObj):
                return float(len(x.visible_names()))
            if isinstance(x, VFn):
                return float(len(x.params))
            raise JErr("length of " + typeof(x))

        def trace(label, rest):
            l = label.force()
            if not isinstance(l, str):
                raise JErr("trace label must be string")
            it.traces[l] = it.traces.get(l, 0) + 1
            it.trace_order.append(l)
            return rest.force()

        def ext_var(x):
            n = x.force()
            if not isinstance(n, str) or n not in it.ext:
                raise JErr("undefined external variable")
            return it.ext[n].force()

        def obj_fields(all_):
            def f(o):
                o = o.force()
                if not isinstance(o, VObj):
                    raise JErr("objectFields of " + typeof(o))
                names = o.all_names() if all_ else o.visible_names()
                return VArr([Thunk.ready(n) for n in names])
            return f

        def obj_has(all_):
            def f(o, k):
                o, k = o.force(), k.force()
                if not isinstance(o, VObj) or not isinstance(k, str):
                    raise JErr("objectHas types")
                if o.lookup(k) is None:
                    return False
                return True if all_ else o.visible(k)
            return f

        def remove_key(o, k):
            o, k = o.force(), k.force()
            if not isinstance(o, VObj) or not isinstance(k, str):
                raise JErr("objectRemoveKey types")
            L = Layer({}, False)
            L.omit = {k}
            L.omit_span = len(o.layers)
            return VObj(o.layers + [L])

        def make_array(n, f):
            n, f = n.force(), f.force()
            if not isinstance(n, float) or not isinstance(f, VFn) or n < 0 or n != int(n):
                raise JErr("makeArray types")
            return VArr([LazyFn(lambda i=i: it.call(f, [Thunk.ready(float(i))], [])) for i in range(int(n))])

        def type_(x):
            return typeof(x.force())

        def map_(f, arr):
            f, arr = f.force(), arr.force()
            if not isinstance(f, VFn) or not isinstance(arr, VArr):
                raise JErr("map types")
            return VArr([LazyFn(lambda t=t: it.call(f, [t], [])) for t in arr.items])

        def map_with_index(f, arr):
            f, arr = f.force(), arr.force()
            if not isinstance(f, VFn) or not isinstance(arr, VArr):
                raise JErr("mapWithIndex types")
            return VArr([LazyFn(lambda i=i, t=t: it.call(f, [Thunk.ready(float(i)), t], [])) for i, t in enumerate(arr.items)])

        def filter_(f, arr):
            f, arr = f.force(), arr.force()
            if not isinstance(f, VFn) or not isinstance(arr, VArr):
                raise JErr("filter types")
            out = []
            for t in arr.items:
                k = it.call(f, [t], [])
                if not isinstance(k, bool):
                    raise JErr("filter predicate not boolean")
                if k:
                    out.append(t)
            return VArr(out)


        # ---- object / type functions (C13): the documented definitions, with their laziness
        def bd(name, params, fn):
            return Thunk.ready(VFn(list(params), None, None, builtin=(name, fn)))

        def need(v, t, what):
            if typeof(v) != t:
                raise JErr("%s expects %s, got %s" % (what, t, typeof(v)))
            return v

        def mk_obj(fields):
            """fields: {name: (vis, thunk)}"""
            L = Layer({}, True)
            for k, (vis, t) in fields.items():
                L.fields[k] = (False, vis, None, None, t)
            return VObj([L])

        def names_of(o, hidden):
            return o.all_names() if hidden else o.visible_names()

        def has_ex(o, f, hidden):
            if o.lookup(f) is None:
                return False
            return True if hidden else o.visible(f)

        def obj_fields_ex(o, hidden):
            o, hidden = need(o.force(), "object", "objectFieldsEx"), need(hidden.force(), "boolean", "objectFieldsEx")
            return VArr([Thunk.ready(n) for n in names_of(o, hidden)])

        def obj_has_ex(o, f, hidden):
            o, f, hidden = need(o.force(), "object", "objectHasEx"), need(f.force(), "string", "objectHasEx"), \
                need(hidden.force(), "boolean", "objectHasEx")
            return has_ex(o, f, hidden)

        def obj_values(hidden):
            def f(o):
                o = need(o.force(), "object", "objectValues")
                return VArr([LazyFn(lambda n=n: it.index_obj(o, n)) for n in names_of(o, hidden)])
            return f

        def obj_kv(hidden):
            def f(o):
                o = need(o.force(), "object", "objectKeysValues")
                return VArr([Thunk.ready(mk_obj({"key": (":", Thunk.ready(n)),
                                                 "value": (":", LazyFn(lambda n=n: it.index_obj(o, n)))}))
                             for n in names_of(o, hidden)])
            return f

        def get(o, f, default, inc_hidden):
            o, f, h = need(o.force(), "object", "get"), need(f.force(), "string", "get"), \
                need(inc_hidden.force(), "boolean", "get")
            if has_ex(o, f, h):
                return it.index_obj(o, f)
            return default.force()

        def map_with_key(func, obj):
            func, obj = need(func.force(), "function", "mapWithKey"), need(obj.force(), "object", "mapWithKey")
            return mk_obj({n: (":", LazyFn(lambda n=n: it.call(func, [Thunk.ready(n), LazyFn(lambda n=n: it.index_obj(obj, n))], [])))
                           for n in obj.visible_names()})

        def merge_patch(target, patch):
            patch = patch.force()
            if not isinstance(patch, VObj):
                return patch
            tv = target.force()
            tobj = tv if isinstance(tv, VObj) else mk_obj({})
            tfields = tobj.visible_names()
            pfields = patch.visible_names()
            null_fields = [k for k in pfields if it.equals(it.index_obj(patch, k), None)]
            both = sorted(set(tfields) | set(pfields))
            out = {}
            for k in both:
                if k in null_fields:
                    continue
                if k not in pfields:
                    out[k] = (":", LazyFn(lambda k=k: it.index_obj(tobj, k)))
                elif k not in tfields:
                    out[k] = (":", LazyFn(lambda k=k: merge_patch(Thunk.ready(None), Thunk.ready(it.index_obj(patch, k)))))
                else:
                    out[k] = (":", LazyFn(lambda k=k: merge_patch(Thunk.ready(it.index_obj(tobj, k)),
                                                                  Thunk.ready(it.index_obj(patch, k)))))
            return mk_obj(out)

        def is_content(b):
            if b is None:
                return False
            if isinstance(b, VArr):
                return len(b.items) > 0
            if isinstance(b, VObj):
                return len(b.visible_names()) > 0
            return True

        def prune(a):
            a = a.force()
            if isinstance(a, VArr):
                return VArr([LazyFn(lambda x=x: prune(x)) for x in a.items if is_content(prune(x))])
            if isinstance(a, VObj):
                out = {}
                for n in a.visible_names():
                    if is_content(prune(LazyFn(lambda n=n: it.index_obj(a, n)))):
                        out[n] = (":", LazyFn(lambda n=n: prune(LazyFn(lambda: it.index_obj(a, n)))))
                return mk_obj(out)
            return a

        def is_(t):
            return lambda v: typeof(v.force()) == t

        def equals(a, b):
            return it.equals(a.force(), b.force())

        def primitive_equals(a, b):
            a, b = a.force(), b.force()
            ta, tb = typeof(a), typeof(b)
            if ta != tb:
                return False
            if ta in ("array", "object"):
                raise JErr("primitiveEquals operates on primitive types, got " + ta)
            if ta == "function":
                raise JErr("cannot test equality of functions")
            return a == b

        def assert_equal(a, b):
            if it.equals(a.force(), b.force()):
                return True
            raise JErr("Assertion failed")

        def xor(x, y):
            x, y = need(x.force(), "boolean", "xor"), need(y.force(), "boolean", "xor")
            return x != y

        def xnor(x, y):
            x, y = need(x.force(), "boolean", "xnor"), need(y.force(), "boolean", "xnor")
            return x == y

        c13 = {
            "objectFieldsEx": bd("objectFieldsEx", [("obj", None), ("hidden", None)], obj_fields_ex),
            "objectHasEx": bd("objectHasEx", [("obj", None), ("fname", None), ("hidden", None)], obj_has_ex),
            "objectValues": bd("objectValues", [("o", None)], obj_values(False)),
            "objectValuesAll": bd("objectValuesAll", [("o", None)], obj_values(True)),
            "objectKeysValues": bd("objectKeysValues", [("o", None)], obj_kv(False)),
            "objectKeysValuesAll": bd("objectKeysValuesAll", [("o", None)], obj_kv(True)),
            "get": bd("get", [("o", None), ("f", None), ("default", PyDefault(None)), ("inc_hidden", PyDefault(True))], get),
            "mapWithKey": bd("mapWithKey", [("func", None), ("obj", None)], map_with_key),
            "mergePatch": bd("mergePatch", [("target", None), ("patch", None)], merge_patch),
            "prune": bd("prune", [("a", None)], prune),
            "equals": bd("equals", [("a", None), ("b", None)], equals),
            "primitiveEquals": bd("primitiveEquals", [("x", None), ("y", None)], primitive_equals),
            "assertEqual": bd("assertEqual", [("a", None), ("b", None)], assert_equal),
            "xor": bd("xor", [("x", None), ("y", None)], xor),
            "xnor": bd("xnor", [("x", None), ("y", None)], xnor),
        }
        for nm, t in (("isString", "string"), ("isNumber", "number"), ("isBoolean", "boolean"), ("isObject", "object"),
                      ("isArray", "array"), ("isFunction", "function"), ("isNull", "null")):
            c13[nm] = bd(nm, [("v", None)], is_(t))


        def foldl(func, arr, init):
            func, arr = need(func.force(), "function", "foldl"), arr.force()
            if isinstance(arr, str):
                raise Abstain("fold over a string")
            need(arr, "array", "foldl")
            acc = init.force()
            for t in arr.items:
                acc = it.call(func, [Thunk.ready(acc), t], [])
            return acc

        def foldr(func, arr, init):
            func, arr = need(func.force(), "function", "foldr"), arr.force()
            if isinstance(arr, str):
                raise Abstain("fold over a string")
            need(arr, "array", "foldr")
            acc = init.force()
            for t in reversed(arr.items):
                acc = it.call(func, [t, Thunk.ready(acc)], [])
            return acc

        def flat_map(func, arr):
            func, arr = need(func.force(), "function", "flatMap"), arr.force()
            if isinstance(arr, str):
                raise Abstain("flatMap over a string")
            need(arr, "array", "flatMap")
            out = []
            for t in arr.items:
                r = it.call(func, [t], [])
                if r is None:
                    raise Abstain("null result in flatMap")
                need(r, "array", "flatMap result")
                out += r.items
            return VArr(out)

        def filter_map(ff, mf, arr):
            return map_(mf, Thunk.ready(filter_(ff, arr)))

        c13["foldl"] = bd("foldl", [("func", None), ("arr", None), ("init", None)], foldl)
        c13["foldr"] = bd("foldr", [("func", None), ("arr", None), ("init", None)], foldr)
        c13["flatMap"] = bd("flatMap", [("func", None), ("arr", None)], flat_map)
        c13["filterMap"] = bd("filterMap", [("filter_func", None), ("map_func", None), ("arr", None)], filter_map)
        fields = {
            "length": b("length", ["x"], length), "trace": b("trace", ["str", "rest"], trace),
            "extVar": b("extVar", ["x"], ext_var), "type": b("type", ["x"], type_),
            "objectFields": b("objectFields", ["o"], obj_fields(False)),
            "objectFieldsAll": b("objectFieldsAll", ["o"], obj_fields(True)),
            "objectHas": b("objectHas", ["o", "f"], obj_has(False)),
            "objectHasAll": b("objectHasAll", ["o", "f"], obj_has(True)),
            "objectRemoveKey": b("objectRemoveKey", ["obj", "key"], remove_key),
            "makeArray": b("makeArray", ["sz", "func"], make_array),
            "map": b("map", ["func", "arr"], map_), "mapWithIndex": b("mapWithIndex", ["func", "arr"], map_with_index),
            "filter": b("filter", ["func", "arr"], filter_),
        }
        fields.update(c13)
        L = Layer({}, True)
        o = VObj([L])
        for k, t in fields.items():
            L.fields[k] = (False, "::", None, None, t)
        return o

    # ------------------------------------------------------------ helpers
    def top_env(self):
        return {"std": Thunk.ready(self.std)}

    def run(self, expr):
        """-> ("ok", python JSON value) | ("error", msg)"""
        try:
            v = self.ev(expr, self.top_env())
            return "ok", self.manifest(v)
        except JErr as e:
            return "error", str(e)
        except RecursionError:
            raise Abstain("reference recursion limit")

    def manifest(self, v):
        t = typeof(v)
        if t in ("null", "boolean", "number", "string"):
            return v
        if t == "array":
            return [self.manifest(x.force()) for x in v.items]
        if t == "object":
            self.check_asserts(v)
            return {n: self.manifest(self.index_obj(v, n)) for n in v.visible_names()}
        raise JErr("cannot manifest function")

    def check_asserts(self, o):
        if o.assert_state == 2 or o.assert_state == 1:
            return
        if o.assert_state == 3:
            raise o.assert_err
        o.assert_state = 1
        try:
            for i, L in enumerate(o.layers):
                for cond, msg, aenv in L.asserts:
                    env = self.field_env(o, i, aenv, ('assert', id(cond)))
                    c = self.ev(cond, env)
                    if not isinstance(c, bool):
                        raise JErr("assert condition not boolean")
                    if not c:
                        raise JErr("object assertion failed")
        except JErr as e:
            o.assert_state, o.assert_err = 3, e
            raise
        except Abstain:
            o.assert_state = 0
            raise
        o.assert_state = 2

    def field_env(self, o, i, env_override=None, who=None):
        # object-level locals are desugared into every member that can see them, so each
        # field / assertion gets its own copies (the upper bound on evaluations the
        # specification allows)
        # (the strict reading of "a local binding is evaluated at most once": one set of
        # object-level locals per object instance and layer, shared by its fields and asserts)
        key = (i, id(env_override) if env_override is not None else 0)
        env = o.local_envs.get(key)
        if env is not None:
            return env
        L = o.layers[i]
        env = dict(env_override if env_override is not None else L.env)
        env["self"] = o
        env["super"] = (o, i)
        if L.outermost:
            env["$"] = o
        for b in L.locals:
            self.bind_into(env, b)
        o.local_envs[key] = env
        return env

    def bind_into(self, env, b):
        if b[0] == "bind":
            env[b[1]] = Thunk(b[2], env, self)
        else:
            env[b[1]] = Thunk(("fn", b[2], b[3]), env, self)

    def index_obj(self, o, name, start=None):
        self.check_asserts(o)
        i = o.lookup(name, start)
        if i is None:
            raise JErr("no such field: " + name)
        return self.field_value(o, name, i, len(o.layers) if start is None else start)

    def field_value(self, o, name, i, start, via=None):
        # memoised per access path: (field, layer the lookup starts from) - obj.f / self.f
        # share one entry, super.f from a given layer has its own (the granularity the
        # property states; a coarser cache only evaluates less)
        key = (name, start, via)
        t = o.cache.get(key)
        if t is None:
            origin = via[1] if via is not None else start
            t = LazyFn(lambda: self.compute_field(o, name, i, origin))
            o.cache[key] = t
        return t.force()

    def compute_field(self, o, name, i, origin=None):
        plus, vis, params, expr, ov = o.layers[i].fields[name]
        if expr is None:            # builtin-backed field (std)
            return ov.force()
        env = self.field_env(o, i, ov, name)
        if params is not None:
            v = VFn(params, expr, env)
        else:
            v = self.ev(expr, env)
        if plus:
            j = o.lookup(name, i)
            if j is not None:
                # the implicit inherited read of `+:` belongs to the access path that triggered
                # it (it is not the expression `super.f`): one memo entry per originating path
                v = self.add(self.field_value(o, name, j, i, ("+:", origin)), v)
        return v

    # ------------------------------------------------------------ operators
    def tostr(self, v):
        t = typeof(v)
        if t == "string":
            return v
        if t == "null":
            return "null"
        if t == "boolean":
            return "true" if v else "false"
        if t == "number":
            return num_to_str(v)
        if t == "function":
            raise JErr("cannot convert function to string")
        raise Abstain("string conversion of " + t)

    def add(self, a, b):
        ta, tb = typeof(a), typeof(b)
        if ta == "number" and tb == "number":
            return finite(a + b)
        if ta == "string" or tb == "string":
            return self.tostr(a) + self.tostr(b)
        if ta == "array" and tb == "array":
            return VArr(a.items + b.items)
        if ta == "object" and tb == "object":
            return VObj(a.layers + b.layers)
        raise JErr("+ on %s and %s" % (ta, tb))

    def equals(self, a, b):
        if a is b and isinstance(a, (VArr, VObj)):
            try:
                return self.equals_(a, b)
            except JErr as e:
                # jrsonnet answers `true` for a value compared with itself without looking inside
                raise JErr("comparison of a value with itself fails inside: " + str(e))
        return self.equals_(a, b)

    def equals_(self, a, b):
        ta, tb = typeof(a), typeof(b)
        if ta != tb:
            return False
        if ta == "function":
            raise JErr("cannot test equality of functions")
        if ta == "array":
            if len(a.items) != len(b.items):
                return False
            for x, y in zip(a.items, b.items):
                if not self.equals(x.force(), y.force()):
                    return False
            return True
        if ta == "object":
            # std.equals compares the field name lists first; assertions only run when a
            # field is actually indexed
            fa, fb = a.visible_names(), b.visible_names()
            if fa != fb:
                return False
            for n in fa:
                if not self.equals(self.index_obj(a, n), self.index_obj(b, n)):
                    return False
            return True
        return a == b

    def compare(self, a, b):
        ta, tb = typeof(a), typeof(b)
        if ta != tb or ta not in ("number", "string", "array"):
            raise JErr("cannot compare %s and %s" % (ta, tb))
        if ta == "array":
            for x, y in zip(a.items, b.items):
                c = self.compare(x.force(), y.force())
                if c != 0:
                    return c
            return (len(a.items) > len(b.items)) - (len(a.items) < len(b.items))
        return (a > b) - (a < b)

    def safe_int(self, x):
        if not isinstance(x, float):
            raise JErr("expected number")
        if abs(x) > SAFE:
            raise JErr("not a safe integer")
        return int(x)

    def binop(self, op, a, b):
        if op == "+":
            return self.add(a, b)
        if op in ("==", "!="):
            r = self.equals(a, b)
            return r if op == "==" else not r
        if op in ("<", "<=", ">", ">="):
            c = self.compare(a, b)
            return {"<": c < 0, "<=": c <= 0, ">": c > 0, ">=": c >= 0}[op]
        if op == "in":
            if not isinstance(a, str) or not isinstance(b, VObj):
                raise JErr("in types")
            return b.lookup(a) is not None
        ta, tb = typeof(a), typeof(b)
        if op == "%" and ta == "string":
            raise Abstain("string formatting")
        if op == "*" and {ta, tb} == {"string", "number"}:
            raise JErr("* on string and number")
        if ta != "number" or tb != "number":
            raise JErr("%s on %s and %s" % (op, ta, tb))
        if op == "-":
            return finite(a - b)
        if op == "*":
            return finite(a * b)
        if op == "/":
            if b == 0:
                raise JErr("division by zero")
            try:
                return finite(a / b)
            except OverflowError:
                raise JErr("overflow")
        if op == "%":
            if b == 0:
                raise JErr("division by zero")
            return finite(math.fmod(a, b))
        x, y = self.safe_int(a), self.safe_int(b)
        if op == "&":
            return float(x & y)
        if op == "|":
            return float(x | y)
        if op == "^":
            return float(x ^ y)
        if op in ("<<", ">>"):
            if b < 0:
                raise JErr("negative shift")
            if y >= 64:
                raise Abstain("shift count >= 64")
            if op == ">>":
                return float(x >> y)
            r = x << y
            if r < -(2 ** 63) or r > 2 ** 63 - 1:
                raise JErr("shift overflow")
            return float(r)
        raise AssertionError(op)

    # ------------------------------------------------------------ calls
    def call(self, f, args, named, tailstrict=False):
        if not isinstance(f, VFn):
            raise JErr("only functions can be called")
        params = f.params
        if len(args) > len(params):
            raise JErr("too many arguments")
        bound = {}
        for (pn, _), a in zip(params, args):
            bound[pn] = a
        pnames = [p[0] for p in params]
        for n, a in named:
            if n not in pnames:
                raise JErr("unknown parameter " + n)
            if n in bound:
                raise JErr("parameter bound twice " + n)
            bound[n] = a
        if f.builtin is not None:
            for pn, d in params:
                if pn not in bound:
                    if isinstance(d, PyDefault):
                        bound[pn] = Thunk.ready(d.v)
                        continue
                    raise JErr("missing argument " + pn)
            if tailstrict:
                for t in bound.values():
                    t.force()
            return f.builtin[1](*[bound[pn] for pn, _ in params])
        env = dict(f.env)
        for pn, d in params:
            if pn in bound:
                env[pn] = bound[pn]
            elif d is not None:
                env[pn] = Thunk(d, env, self)
            else:
                raise JErr("missing argument " + pn)
        if tailstrict:
            for t in list(bound.values()):
                t.force()
        self.depth += 1
        if self.depth > 60:
            self.depth -= 1
            raise JErr("stack overflow")
        try:
            return self.ev(f.body, env)
        finally:
            self.depth -= 1

    # ------------------------------------------------------------ objects
    def make_layer(self, members, env):
        outer = "self" not in env
        L = Layer(env, outer)
        names = set()
        for m in members:
            if m[0] == "olocal":
                if m[1][1] in names:
                    raise JErr("duplicate local")
                names.add(m[1][1])
                L.locals.append(m[1])
            elif m[0] == "oassert":
                L.asserts.append((m[1], m[2], None))
        for m in members:
            if m[0] != "field":
                continue
            _, fname, plus, vis, params, e = m
            if fname[0] == "fixed":
                name = fname[1]
            else:
                k = self.ev(fname[1], env)
                if k is None:
                    continue
                if not isinstance(k, str):
                    raise JErr("field name must be string")
                name = k
            if name in L.fields:
                raise JErr("duplicate field " + name)
            if params is not None:
                pn = [p[0] for p in params]
                if len(set(pn)) != len(pn):
                    raise JErr("duplicate parameter")
            L.fields[name] = (plus, vis, params, e, None)
        return L

    def comp_iter(self, specs, env, k):
        if not specs:
            k(env)
            return
        s = specs[0]
        if s[0] == "if":
            c = self.ev(s[1], env)
            if not isinstance(c, bool):
                raise JErr("comprehension condition not boolean")
            if c:
                self.comp_iter(specs[1:], env, k)
        else:
            arr = self.ev(s[2], env)
            if not isinstance(arr, VArr):
                raise JErr("for over non-array")
            for item in arr.items:
                e2 = dict(env)
                e2[s[1]] = item
                self.comp_iter(specs[1:], e2, k)

    # ------------------------------------------------------------ the evaluator
    def ev(self, e, env):
        t = e[0]
        if t == "num":
            return float(e[1])
        if t == "str":
            return e[1]
        if t == "lit":
            k = e[1]
            if k == "null":
                return None
            if k == "true":
                return True
            if k == "false":
                return False
            if k == "self":
                if "self" not in env:
                    raise JErr("self outside object")
                return env["self"]
            if k == "$":
                if "$" not in env:
                    raise JErr("$ outside object")
                return env["$"]
            if k == "super":
                raise JErr("super cannot be used standalone")
        if t == "var":
            th = env.get(e[1])
            if th is None or not isinstance(th, Thunk):
                raise JErr("undefined variable " + e[1])
            return th.force()
        if t == "arr":
            return VArr([Thunk(x, env, self) for x in e[1]])
        if t == "arrcomp":
            out = []
            self.comp_iter(e[2], env, lambda env2: out.append(Thunk(e[1], env2, self)))
            return VArr(out)
        if t == "obj":
            return VObj([self.make_layer(e[1], env)])
        if t == "objcomp":
            _, locs, field, specs = e
            outer = "self" not in env
            L = Layer(env, outer)
            def add(env2):
                k = self.ev(field[1][1], env2)
                if k is None:
                    return
                if not isinstance(k, str):
                    raise JErr("field name must be string")
                if k in L.fields:
                    raise JErr("duplicate field " + k)
                L.fields[k] = (field[2], field[3], field[4], field[5], env2)
            self.comp_iter(specs, env, add)
            L.locals = list(locs)
            return VObj([L])
        if t == "objext":
            base = self.ev(e[1], env)
            ext = self.ev(e[2], env)
            return self.add(base, ext)
        if t == "un":
            v = self.ev(e[2], env)
            op = e[1]
            if op == "!":
                if not isinstance(v, bool):
                    raise JErr("! on " + typeof(v))
                return not v
            if not isinstance(v, float):
                raise JErr("%s on %s" % (op, typeof(v)))
            if op == "-":
                return -v
            if op == "+":
                return v
            if abs(v) > SAFE:
                raise Abstain("~ outside safe range")
            return float(~int(v))
        if t == "bin":
            op = e[1]
            if op in ("&&", "||"):
                a = self.ev(e[2], env)
                if not isinstance(a, bool):
                    raise JErr("%s on %s" % (op, typeof(a)))
                if op == "&&" and not a:
                    return False
                if op == "||" and a:
                    return True
                b = self.ev(e[3], env)
                if not isinstance(b, bool):
                    raise JErr("%s rhs %s" % (op, typeof(b)))
                return b
            if op == "in" and e[3] == ("lit", "super"):
                k = self.ev(e[2], env)
                if "super" not in env:
                    raise JErr("super outside object")
                if not isinstance(k, str):
                    raise JErr("in types")
                o, i = env["super"]
                return o.lookup(k, i) is not None
            a = self.ev(e[2], env)
            b = self.ev(e[3], env)
            return self.binop(op, a, b)
        if t == "assert":
            c = self.ev(e[1], env)
            if not isinstance(c, bool):
                raise JErr("assert condition not boolean")
            if not c:
                if e[2] is not None:
                    self.ev(e[2], env)
                raise JErr("assertion failed")
            return self.ev(e[3], env)
        if t == "local":
            env2 = dict(env)
            names = set()
            for b in e[1]:
                if b[1] in names:
                    raise JErr("duplicate local " + b[1])
                names.add(b[1])
                if b[0] == "bindfn":
                    pn = [p[0] for p in b[2]]
                    if len(set(pn)) != len(pn):
                        raise JErr("duplicate parameter")
                self.bind_into(env2, b)
            return self.ev(e[2], env2)
        if t == "error":
            v = self.ev(e[1], env)
            raise JErr("error: " + (v if isinstance(v, str) else "<value>"))
        if t == "fn":
            pn = [p[0] for p in e[1]]
            if len(set(pn)) != len(pn):
                raise JErr("duplicate parameter")
            return VFn(e[1], e[2], env)
        if t == "apply":
            _, fe, args, named, ts = e
            f = self.ev(fe, env)
            return self.call(f, [Thunk(a, env, self) for a in args],
                             [(n, Thunk(a, env, self)) for n, a in named], ts)
        if t == "if":
            c = self.ev(e[1], env)
            if not isinstance(c, bool):
                raise JErr("condition not boolean")
            if c:
                return self.ev(e[2], env)
            return None if e[3] is None else self.ev(e[3], env)
        if t == "index":
            if e[1] == ("lit", "super"):
                if "super" not in env:
                    raise JErr("super outside object")
                k = self.ev(e[2], env)
                if not isinstance(k, str):
                    raise JErr("super index must be string")
                o, i = env["super"]
                return self.index_obj(o, k, i)
            base = self.ev(e[1], env)
            k = self.ev(e[2], env)
            return self.index(base, k)
        if t == "slice":
            base = self.ev(e[1], env)
            parts = [None if p is None else self.ev(p, env) for p in e[2:5]]
            return self.slice(base, *parts)
        if t == "import":
            raise Abstain("import inside reference evaluation")
        raise AssertionError(e)

    def index(self, base, k):
        if isinstance(base, VObj):
            if not isinstance(k, str):
                raise JErr("object index must be string")
            return self.index_obj(base, k)
        if isinstance(base, VArr):
            if not isinstance(k, float):
                raise JErr("array index must be number")
            if k != int(k):
                if abs(k - round(k)) < 1e-9:
                    raise Abstain("nearly integral index")
                raise JErr("fractional index")
            i = int(k)
            if i < 0 or i >= len(base.items):
                raise JErr("array index out of bounds")
            return base.items[i].force()
        if isinstance(base, str):
            if not isinstance(k, float):
                raise JErr("string index must be number")
            if k != int(k):
                if abs(k - round(k)) < 1e-9:
                    raise Abstain("nearly integral index")
                raise JErr("fractional index")
            i = int(k)
            if i < 0 or i >= len(base):
                raise JErr("string index out of bounds")
            return base[i]
        raise JErr("cannot index " + typeof(base))

    def slice(self, base, a, b, c):
        if not isinstance(base, (VArr, str)):
            raise JErr("cannot slice " + typeof(base))
        for x in (a, b, c):
            if x is not None and not isinstance(x, float):
                raise JErr("slice bound must be number")
            if x is not None and x != int(x):
                raise Abstain("fractional slice bound")
        if c is not None and c <= 0:
            raise JErr("slice step must be positive")
        sl = slice(None if a is None else int(a), None if b is None else int(b), None if c is None else int(c))
        if isinstance(base, str):
            return base[sl]
        return VArr(base.items[sl])
