"""Port of the reference std.format algorithm (std.jsonnet: parse codes -> %(key), flags
# 0 - space +, width, .precision, *, length modifiers ignored, conversions
d i u o x X e E f F g G c s %).  Values are Python JSON-like values (numbers = float)."""
import math


class FmtError(Exception):
    pass


class Abstain(Exception):
    pass


def jtype(v):
    if v is None:
        return "null"
    if isinstance(v, bool):
        return "boolean"
    if isinstance(v, (int, float)):
        return "number"
    if isinstance(v, str):
        return "string"
    if isinstance(v, list):
        return "array"
    if isinstance(v, dict):
        return "object"
    return "function"


def num_to_str(x):
    if x == int(x) and abs(x) < 1e17:
        return "-0" if (x == 0 and math.copysign(1, x) < 0) else str(int(x))
    r = repr(float(x))
    if "e" in r or "inf" in r or "nan" in r:
        raise Abstain("number spelling")
    return r


def json_escape(s):
    import json
    return json.dumps(s, ensure_ascii=False)


def to_string(v, top=True):
    t = jtype(v)
    if t == "string":
        return v if top else json_escape(v)
    if t == "null":
        return "null"
    if t == "boolean":
        return "true" if v else "false"
    if t == "number":
        return num_to_str(float(v))
    if t == "array":
        return "[ ]" if not v else "[" + ", ".join(to_string(x, False) for x in v) + "]"
    if t == "object":
        return "{ }" if not v else "{" + ", ".join("%s: %s" % (json_escape(k), to_string(v[k], False)) for k in sorted(v)) + "}"
    raise FmtError("cannot convert function")


# ----------------------------------------------------------------- parsing
def parse_codes(s):
    out = []
    cur = ""
    i = 0
    n = len(s)

    def need(i):
        if i >= n:
            raise FmtError("Truncated format code.")

    while i < n:
        c = s[i]
        if c != "%":
            cur += c
            i += 1
            continue
        i += 1
        need(i)
        mkey = None
        if s[i] == "(":
            j = i + 1
            v = ""
            while True:
                if j >= n:
                    raise FmtError("Truncated format code.")
                if s[j] == ")":
                    break
                v += s[j]
                j += 1
            mkey = v
            i = j + 1
        flags = {"alt": False, "zero": False, "left": False, "blank": False, "plus": False}
        while True:
            need(i)
            c = s[i]
            if c == "#":
                flags["alt"] = True
            elif c == "0":
                flags["zero"] = True
            elif c == "-":
                flags["left"] = True
            elif c == " ":
                flags["blank"] = True
            elif c == "+":
                flags["plus"] = True
            else:
                break
            i += 1

        def width(i):
            if i < n and s[i] == "*":
                return i + 1, "*"
            v = 0
            while True:
                need(i)
                if s[i].isdigit() and s[i] in "0123456789":
                    v = v * 10 + int(s[i])
                    i += 1
                else:
                    return i, v
        i, fw = width(i)
        if isinstance(fw, int) and fw > 65535:
            raise Abstain("field width beyond the implementation limit")
        need(i)
        prec = None
        if s[i] == ".":
            i, prec = width(i + 1)
            if isinstance(prec, int) and prec > 65535:
                raise Abstain("precision beyond the implementation limit")
        need(i)
        if s[i] in "hlL":
            i += 1
        need(i)
        c = s[i]
        table = {"d": ("d", False), "i": ("d", False), "u": ("d", False), "o": ("o", False), "x": ("x", False),
                 "X": ("x", True), "e": ("e", False), "E": ("e", True), "f": ("f", False), "F": ("f", True),
                 "g": ("g", False), "G": ("g", True), "c": ("c", False), "s": ("s", False), "%": ("%", False)}
        if c not in table:
            raise FmtError("Unrecognised conversion type: " + c)
        ctype, caps = table[c]
        i += 1
        out.append(cur)
        out.append({"mkey": mkey, "cflags": flags, "fw": fw, "prec": prec, "ctype": ctype, "caps": caps})
        cur = ""
    out.append(cur)
    return out


# ----------------------------------------------------------------- rendering
def padding(w, ch):
    if w > 200000:
        raise Abstain("result too large to model")
    return ch * int(w) if w > 0 else ""


def pad_left(s, w, ch):
    return padding(w - len(s), ch) + s


def pad_right(s, w, ch):
    return s + padding(w - len(s), ch)


def render_int(neg, mag, min_chars, min_digits, blank, plus, radix, zero_prefix):
    if mag == 0:
        dec = "0"
    else:
        digits = ""
        n = mag
        if n > 1e18 and n != int(n):
            raise Abstain("huge")
        n = int(n) if abs(n) < 1e300 else int(n)
        while n != 0:
            digits = str(n % radix) + digits
            n //= radix
        dec = zero_prefix + digits
    zp = min_chars - (1 if (neg or blank or plus) else 0)
    zp2 = max(zp, min_digits)
    dec2 = pad_left(dec, zp2, "0")
    return ("-" if neg else "+" if plus else " " if blank else "") + dec2


def render_hex(n__, min_chars, min_digits, blank, plus, add_zerox, capitals):
    numerals = "0123456789ABCDEF" if capitals else "0123456789abcdef"
    n_ = abs(n__)
    fl = math.floor(n_)
    if fl == 0:
        hx = "0"
    else:
        hx = ""
        n = int(fl)
        while n != 0:
            hx = numerals[n % 16] + hx
            n //= 16
    neg = n__ < 0
    zp = min_chars - (1 if (neg or blank or plus) else 0) - (2 if add_zerox else 0)
    zp2 = max(zp, min_digits)
    hex2 = (("0X" if capitals else "0x") if add_zerox else "") + pad_left(hx, zp2, "0")
    return ("-" if neg else "+" if plus else " " if blank else "") + hex2


def strip_trailing_zero(s):
    i = len(s)
    while i > 0 and s[i - 1] == "0":
        i -= 1
    return s[:i]


def render_float_dec(n__, zero_pad, blank, plus, ensure_pt, trailing, prec):
    n_ = abs(n__)
    if prec > 30:
        raise Abstain("precision beyond double resolution")
    den = math.pow(10, prec)
    scaled = n_ * den
    if not math.isfinite(scaled) or scaled > 2 ** 62:
        raise Abstain("scaled value beyond exact integer range")
    fpart = scaled - math.floor(scaled)
    if abs(fpart - 0.5) < 1e-6:
        # ties and near-ties: published versions of the algorithm (and binary rounding of
        # n * 10^prec) disagree about the direction
        raise Abstain("rounding tie")
    numerator = scaled + 0.5
    whole = math.floor(numerator / den)
    frac = math.floor(numerator) % den
    dot_size = 0 if (prec == 0 and not ensure_pt) else 1
    zp = zero_pad - prec - dot_size
    s = render_int(n__ < 0, whole, zp, 0, blank, plus, 10, "")
    if prec == 0:
        return s + ("." if ensure_pt else "")
    if trailing or frac > 0:
        frac_str = render_int(False, frac, prec, 0, False, False, 10, "")
        return s + "." + (strip_trailing_zero(frac_str) if not trailing else frac_str)
    return s


def log10floor(x):
    q = math.log(abs(x)) / math.log(10)
    if abs(q - round(q)) < 1e-9:
        # the documented algorithm (floor(log(x)/log(10))) is at the mercy of one rounding
        # error at exact powers of ten: 1000 -> 2.9999999999999996 -> "10.0e+02"
        raise Abstain("power of ten")
    return math.floor(q)


def render_float_sci(n__, zero_pad, blank, plus, ensure_pt, trailing, caps, prec):
    exponent = 0 if n__ == 0 else log10floor(n__)
    suff = ("E" if caps else "e") + render_int(exponent < 0, abs(exponent), 3, 0, False, True, 10, "")
    if exponent == -324:
        mantissa = n__ * 10 / math.pow(10, exponent + 1)
    else:
        mantissa = n__ / math.pow(10, exponent)
    zp2 = zero_pad - len(suff)
    return render_float_dec(mantissa, zp2, blank, plus, ensure_pt, trailing, prec) + suff


def format_code(val, code, fw, prec_or_null):
    cf = code["cflags"]
    for x in (fw, prec_or_null):
        if isinstance(x, (int, float)) and not isinstance(x, bool) and (x < 0 or x != int(x)):
            raise Abstain("negative or fractional * width / precision")
    if fw is not None and not isinstance(fw, (int, float)):
        raise FmtError("width must be number")
    if prec_or_null is not None and not isinstance(prec_or_null, (int, float)):
        raise FmtError("precision must be number")
    fpprec = prec_or_null if prec_or_null is not None else 6
    iprec = prec_or_null if prec_or_null is not None else 0
    zp = fw if (cf["zero"] and not cf["left"]) else 0
    ct = code["ctype"]
    if ct == "s":
        return to_string(val)
    if ct in ("d", "o", "x", "f", "e", "g"):
        if jtype(val) != "number":
            raise FmtError("Format required number, got " + jtype(val))
        val = float(val)
        if ct in ("o", "x") and val != int(val):
            raise Abstain("fractional value under o/x (Python rejects it, std.jsonnet floors it)")
    if ct == "d":
        return render_int(val <= -1, math.floor(abs(val)), zp, iprec, cf["blank"], cf["plus"], 10, "")
    if ct == "o":
        return render_int(val <= -1, math.floor(abs(val)), zp, iprec, cf["blank"], cf["plus"], 8, "0" if cf["alt"] else "")
    if ct == "x":
        return render_hex(math.floor(val), zp, iprec, cf["blank"], cf["plus"], cf["alt"], code["caps"])
    if ct == "f":
        return render_float_dec(val, zp, cf["blank"], cf["plus"], cf["alt"], True, fpprec)
    if ct == "e":
        return render_float_sci(val, zp, cf["blank"], cf["plus"], cf["alt"], True, code["caps"], fpprec)
    if ct == "g":
        fpprec = max(1, fpprec)    # precision 0 is treated as 1 (C / Python)
        exponent = log10floor(val) if val != 0 else 0
        if exponent < -4 or exponent >= fpprec:
            return render_float_sci(val, zp, cf["blank"], cf["plus"], cf["alt"], cf["alt"], code["caps"], fpprec - 1)
        digits_before_pt = max(1, exponent + 1)
        return render_float_dec(val, zp, cf["blank"], cf["plus"], cf["alt"], cf["alt"], fpprec - digits_before_pt)
    if ct == "c":
        if jtype(val) == "number":
            cp = float(val)
            if cp != int(cp):
                raise Abstain("fractional code point (implementations truncate)")
            if cp < 0 or cp > 0x10FFFF or 0xD800 <= cp <= 0xDFFF:
                raise FmtError("invalid code point")
            return chr(int(cp))
        if jtype(val) == "string":
            if len(val) == 1:
                return val
            raise FmtError("%c expected 1-sized string")
        raise FmtError("%c expected number / string")
    raise FmtError("Unknown code")


def fmt(s, vals):
    codes = parse_codes(s)
    if isinstance(vals, dict):
        out = ""
        for code in codes:
            if isinstance(code, str):
                out += code
                continue
            if code["ctype"] == "%":
                s2 = "%"
                fw = code["fw"]
                if fw == "*":
                    raise FmtError("Cannot use * field width with object.")
            else:
                if code["mkey"] is None:
                    raise FmtError("Mapping keys required.")
                if code["fw"] == "*":
                    raise FmtError("Cannot use * field width with object.")
                if code["prec"] == "*":
                    raise FmtError("Cannot use * precision with object.")
                fw = code["fw"]
                if code["mkey"] not in vals:
                    raise FmtError("No such field: " + code["mkey"])
                s2 = format_code(vals[code["mkey"]], code, fw, code["prec"])
            out += pad_right(s2, fw, " ") if code["cflags"]["left"] else pad_left(s2, fw, " ")
        return out
    arr = vals if isinstance(vals, list) else [vals]
    j = 0
    out = ""
    for code in codes:
        if isinstance(code, str):
            out += code
            continue
        fw = code["fw"]
        if fw == "*":
            if j >= len(arr):
                raise FmtError("Not enough values to format")
            fw = arr[j]
            j += 1
        prec = code["prec"]
        if prec == "*":
            if j >= len(arr):
                raise FmtError("Not enough values to format")
            prec = arr[j]
            j += 1
        if fw is not None and not isinstance(fw, (int, float)) or isinstance(fw, bool):
            raise FmtError("width must be number")
        if code["ctype"] == "%":
            s2 = "%"
        else:
            if j >= len(arr):
                raise FmtError("Not enough values to format")
            s2 = format_code(arr[j], code, fw, prec)
            j += 1
        out += pad_right(s2, fw, " ") if code["cflags"]["left"] else pad_left(s2, fw, " ")
    if j < len(arr):
        raise FmtError("Too many values to format")
    return out


def self_check():
    """the port must coincide with Python's own % on the common benign domain; a failure
    here is an oracle defect (inconclusive), never a jrsonnet violation"""
    bad = []
    for f in ["%d", "%5d", "%-5d|", "%05d", "%+d", "% d", "%x", "%X", "%#x", "%08x", "%s", "%10s", "%-10s|", "%.3d"]:
        for v in [0, 1, -1, 7, 255, 123456789, 2 ** 31]:
            try:
                if fmt(f, [float(v)]) != f % v:
                    bad.append((f, v, fmt(f, [float(v)]), f % v))
            except Exception as e:
                bad.append((f, v, repr(e)))
    for f in ["%f", "%.1f", "%.3f", "%8.2f", "%-8.2f|", "%08.2f", "%+.2f", "%.0f", "%e", "%.2e", "%E"]:
        for v in [0.0, 3.0, -3.0, 0.5, 1.5, 0.125, 300.0, 7000.0, 0.25, 2.0 ** 20]:
            if f in ("%.0f", "%.1f", "%8.2f", "%-8.2f|", "%08.2f", "%+.2f") and v in (0.5, 1.5, 0.125, 0.25):
                continue   # ties: Python rounds half to even, the reference algorithm rounds half up
            try:
                if fmt(f, [v]) != f % v:
                    bad.append((f, v, fmt(f, [v]), f % v))
            except Exception as e:
                bad.append((f, v, repr(e)))
    for f, v in [("%s %s", ["a", "b"]), ("%%", []), ("a%%b%sc", ["x"]), ("%5s|%-5s|", ["é", "é"]), ("%c%c", ["a", 98.0])]:
        exp = f % tuple("b" if x == 98.0 else x for x in v)
        if fmt(f, list(v)) != exp:
            bad.append((f, v, fmt(f, list(v)), exp))
    return bad
