"""Generator-side AST for the standard Jsonnet language, with
  * a pretty-printer that inserts only the parentheses precedence/associativity require
    (and a fully parenthesised variant), and
  * a renderer to the S-expression format of harness/src/dump.rs (intended-tree oracle).

Node shapes (tuples):
  ("lit", "null"|"true"|"false"|"self"|"super"|"$")
  ("num", float) ("str", s) ("var", name)
  ("arr", [e]) ("arrcomp", e, specs)            specs: [("for", name, e) | ("if", e)]
  ("obj", members) ("objcomp", locals, field, specs) ("objext", e, objnode)
      members: ("field", fname, plus, vis, params|None, e) | ("olocal", bind) | ("oassert", cond, msg|None)
      fname: ("fixed", s) | ("dyn", e)          vis: ":" | "::" | ":::"
  ("un", op, e) ("bin", op, l, r)
  ("assert", cond, msg|None, rest)
  ("local", [bind], body)      bind: ("bind", name, e) | ("bindfn", name, params, e)
      params: [(name, default|None)]
  ("import", kind, path_str)   kind: import|importstr|importbin
  ("error", e)
  ("apply", f, [args], [(name, e)], tailstrict)
  ("index", e, idx)            e.f is ("index", e, ("str", "f")) with dot=True flag: ("index", e, idx, "dot")
  ("fn", params, body) ("if", c, t, e|None) ("slice", e, a|None, b|None, c|None)
"""
import re
import struct

from ..common import jstr, jnum

IDENT = re.compile(r"^[A-Za-z_][A-Za-z_0-9]*$")
RESERVED = {"assert", "else", "error", "false", "for", "function", "if", "import", "importstr", "importbin",
            "in", "local", "null", "tailstrict", "then", "self", "super", "true"}

# binary operator precedence (higher binds tighter), all left-associative
PREC = {"*": 10, "/": 10, "%": 10, "+": 9, "-": 9, "<<": 8, ">>": 8, "<": 7, ">": 7, "<=": 7, ">=": 7,
        "in": 7, "==": 6, "!=": 6, "&": 5, "^": 4, "|": 3, "&&": 2, "||": 1}
P_UNARY = 11
P_POSTFIX = 12   # application, index, slice, object extension
P_ATOM = 13
P_LOW = 0        # local / if / function / error / assert / import: extend as far right as possible


def is_ident(s):
    return bool(IDENT.match(s)) and s not in RESERVED


def prec(e):
    t = e[0]
    if t == "bin":
        return PREC[e[1]]
    if t == "un":
        return P_UNARY
    if t in ("apply", "index", "slice", "objext"):
        return P_POSTFIX
    if t in ("local", "if", "fn", "error", "assert", "import"):
        return P_LOW
    if t == "num" and (e[1] < 0 or (e[1] == 0 and str(e[1]).startswith("-"))):
        return P_UNARY
    return P_ATOM


def open_if(e):
    """does the printed form of e end with an `if` that has no else (so that a following
    `else` would attach to it)?"""
    t = e[0]
    if t == "if":
        return e[3] is None or open_if(e[3])
    if t == "local":
        return open_if(e[2])
    if t == "assert":
        return open_if(e[3])
    if t == "fn":
        return open_if(e[2])
    if t == "error":
        return open_if(e[1])
    return False


def block_ok(s):
    if not s or not s.endswith("\n"):
        return False
    first = s.split("\n")[0]
    if first == "" or first[0] in " \t":
        return False
    return all(ord(c) >= 0x20 or c in "\n\t" for c in s)


def str_literal(s, style):
    """render a string in one of the literal forms of the grammar"""
    if style == "blk" and block_ok(s):
        lines = s[:-1].split("\n")
        return "|||\n" + "".join(("  " + ln if ln else "") + "\n" for ln in lines) + "|||"
    if style in ("vd", "vs") and all(ord(c) >= 0x20 or c in "\n\t" for c in s):
        q = '"' if style == "vd" else "'"
        return "@" + q + s.replace(q, q + q) + q
    if style == "s":
        out = ["'"]
        for ch in s:
            if ch == "'":
                out.append("\\'")
            elif ch == "\\":
                out.append("\\\\")
            elif ch == "\n":
                out.append("\\n")
            elif ch == "\t":
                out.append("\\t")
            elif ch in "/\b\f\r":
                # the remaining named escapes of the grammar: \/ \b \f \r
                out.append({"/": "\\/", "\b": "\\b", "\f": "\\f", "\r": "\\r"}[ch])
            elif ord(ch) < 0x20 or ord(ch) == 0x7f:
                out.append(("\\u%04X" if len(s) % 2 else "\\u%04x") % ord(ch))
            elif ord(ch) > 0xffff and len(s) % 2:
                # astral code point as a surrogate pair escape
                v = ord(ch) - 0x10000
                out.append("\\u%04x\\u%04x" % (0xd800 + (v >> 10), 0xdc00 + (v & 0x3ff)))
            else:
                out.append(ch)
        out.append("'")
        return "".join(out)
    return jstr(s)


class Printer:
    def __init__(self, full_parens=False, sep=" ", guard_unary=False):
        self.full = full_parens
        self.sep = sep
        # guard_unary: write (-a) * b instead of -a * b (the default parser is known to
        # group the latter as -(a * b); see known finding C06-default-parser-unary-precedence)
        self.guard_unary = guard_unary

    def wrap(self, e, min_prec):
        s = self.p(e)
        if self.full and e[0] not in ("lit", "num", "str", "var", "arr", "obj", "arrcomp", "objcomp"):
            return "(" + s + ")"
        if prec(e) < min_prec:
            return "(" + s + ")"
        return s

    def params(self, ps):
        return ", ".join(n if d is None else "%s=%s" % (n, self.p(d)) for n, d in ps)

    def bind(self, b):
        if b[0] == "bind":
            return "%s = %s" % (b[1], self.p(b[2]))
        return "%s(%s) = %s" % (b[1], self.params(b[2]), self.p(b[3]))

    def fname(self, f):
        if f[0] == "fixed":
            return f[1] if is_ident(f[1]) else jstr(f[1])
        return "[" + self.p(f[1]) + "]"

    def member(self, m):
        if m[0] == "field":
            _, fname, plus, vis, params, e = m
            head = self.fname(fname)
            if params is not None:
                head += "(" + self.params(params) + ")"
            return "%s%s%s %s" % (head, "+" if plus else "", vis, self.p(e))
        if m[0] == "olocal":
            return "local " + self.bind(m[1])
        if m[0] == "oassert":
            return "assert " + self.p(m[1]) + ("" if m[2] is None else " : " + self.p(m[2]))
        raise AssertionError(m)

    def specs(self, specs):
        out = []
        for s in specs:
            if s[0] == "for":
                out.append("for %s in %s" % (s[1], self.p(s[2])))
            else:
                out.append("if " + self.p(s[1]))
        return " ".join(out)

    def objbody(self, o):
        if o[0] == "obj":
            return "{" + ", ".join(self.member(m) for m in o[1]) + "}"
        _, locs, field, specs = o
        parts = ["local " + self.bind(b) for b in locs] + [self.member(field)]
        return "{" + ", ".join(parts) + " " + self.specs(specs) + "}"

    def p(self, e):
        t = e[0]
        if t == "lit":
            return e[1]
        if t == "num":
            x = e[1]
            s = jnum(x)
            return s[1:-1] if s.startswith("(") else s   # sign handled via prec()
        if t == "str":
            return str_literal(e[1], e[2] if len(e) > 2 else "d")
        if t == "var":
            return e[1]
        if t == "arr":
            return "[" + ", ".join(self.p(x) for x in e[1]) + "]"
        if t == "arrcomp":
            return "[" + self.p(e[1]) + " " + self.specs(e[2]) + "]"
        if t in ("obj", "objcomp"):
            return self.objbody(e)
        if t == "objext":
            return self.wrap(e[1], P_POSTFIX) + " " + self.objbody(e[2])
        if t == "un":
            return e[1] + self.wrap(e[2], P_UNARY)
        if t == "bin":
            _, op, l, r = e
            pr = PREC[op]
            ls = self.wrap(l, pr)          # left-assoc: same precedence allowed on the left
            rs = self.wrap(r, pr + 1)
            if self.guard_unary and pr == 10:
                if prec(l) == P_UNARY and not ls.startswith("("):
                    ls = "(" + ls + ")"
                if prec(r) == P_UNARY and not rs.startswith("("):
                    rs = "(" + rs + ")"
            # a low-precedence construct on the left would swallow the operator
            if prec(l) == P_LOW and not ls.startswith("("):
                ls = "(" + ls + ")"
            return "%s %s %s" % (ls, op, rs)
        if t == "assert":
            return "assert %s%s; %s" % (self.p(e[1]), "" if e[2] is None else " : " + self.p(e[2]), self.p(e[3]))
        if t == "local":
            return "local " + ", ".join(self.bind(b) for b in e[1]) + "; " + self.p(e[2])
        if t == "import":
            return "%s %s" % (e[1], jstr(e[2]))
        if t == "error":
            return "error " + self.p(e[1])
        if t == "apply":
            _, f, args, named, ts = e
            a = [self.p(x) for x in args] + ["%s=%s" % (n, self.p(x)) for n, x in named]
            return self.wrap(f, P_POSTFIX) + "(" + ", ".join(a) + ")" + (" tailstrict" if ts else "")
        if t == "index":
            base = self.wrap(e[1], P_POSTFIX)
            if len(e) > 3 and e[3] == "dot" and e[2][0] == "str" and is_ident(e[2][1]):
                if e[1][0] == "num":
                    base = "(" + base + ")"
                return base + "." + e[2][1]
            return base + "[" + self.p(e[2]) + "]"
        if t == "fn":
            return "function(%s) %s" % (self.params(e[1]), self.p(e[2]))
        if t == "if":
            s = "if %s then %s" % (self.p(e[1]), self.p(e[2]))
            if e[3] is not None:
                # dangling else: a then-branch that ends in an else-less `if` must be parenthesised
                if open_if(e[2]):
                    s = "if %s then (%s)" % (self.p(e[1]), self.p(e[2]))
                s += " else " + self.p(e[3])
            return s
        if t == "slice":
            _, b, x, y, z = e
            parts = [("" if v is None else self.p(v)) for v in (x, y, z)]
            inner = parts[0] + ":" + parts[1] + ("" if z is None else ":" + parts[2])
            return self.wrap(b, P_POSTFIX) + "[" + inner + "]"
        raise AssertionError(e)


def to_source(e, full_parens=False, guard_unary=False):
    return Printer(full_parens, guard_unary=guard_unary).p(e)


# ----------------------------------------------------------------- S-expression (dump.rs mirror)
def _num(x):
    return "(n %016x)" % struct.unpack(">Q", struct.pack(">d", float(x)))[0]


def _js(s):
    import json
    return json.dumps(s, ensure_ascii=False)


def _params(ps):
    return "(params" + "".join(" (p %s%s)" % (n, "" if d is None else " " + sexpr(d)) for n, d in ps) + ")"


def _bind(b):
    if b[0] == "bind":
        return "(bind %s %s)" % (b[1], sexpr(b[2]))
    return "(bindfn %s %s %s)" % (b[1], _params(b[2]), sexpr(b[3]))


def _assert(c, m):
    return "(assert %s%s)" % (sexpr(c), "" if m is None else " " + sexpr(m))


def _field(m):
    _, fname, plus, vis, params, e = m
    n = "(fixed %s)" % _js(fname[1]) if fname[0] == "fixed" else "(dyn %s)" % sexpr(fname[1])
    return "(field %s %s %s %s %s)" % (n, "+" if plus else "-", vis,
                                       "noparams" if params is None else _params(params), sexpr(e))


def _specs(specs):
    return "".join(" (for %s %s)" % (s[1], sexpr(s[2])) if s[0] == "for" else " (if %s)" % sexpr(s[1])
                   for s in specs)


def _body(o):
    if o[0] == "obj":
        locs = [m for m in o[1] if m[0] == "olocal"]
        asserts = [m for m in o[1] if m[0] == "oassert"]
        fields = [m for m in o[1] if m[0] == "field"]
        return "(members (locals%s) (asserts%s) (fields%s))" % (
            "".join(" " + _bind(m[1]) for m in locs),
            "".join(" " + _assert(m[1], m[2]) for m in asserts),
            "".join(" " + _field(m) for m in fields))
    _, locs, field, specs = o
    return "(objcomp (locals%s) %s%s)" % ("".join(" " + _bind(b) for b in locs), _field(field), _specs(specs))


def sexpr(e):
    t = e[0]
    if t == "lit":
        return e[1]
    if t == "num":
        x = e[1]
        if x < 0 or (x == 0 and str(x).startswith("-")):
            return "(u - %s)" % _num(-x)      # negative literals are unary minus in the grammar
        return _num(x)
    if t == "str":
        return "(s %s)" % _js(e[1])
    if t == "var":
        return "(v %s)" % e[1]
    if t == "arr":
        return "(arr" + "".join(" " + sexpr(x) for x in e[1]) + ")"
    if t == "arrcomp":
        return "(arrcomp %s%s)" % (sexpr(e[1]), _specs(e[2]))
    if t in ("obj", "objcomp"):
        return "(obj %s)" % _body(e)
    if t == "objext":
        return "(objext %s %s)" % (sexpr(e[1]), _body(e[2]))
    if t == "un":
        return "(u %s %s)" % (e[1], sexpr(e[2]))
    if t == "bin":
        return "(b %s %s %s)" % (e[1], sexpr(e[2]), sexpr(e[3]))
    if t == "assert":
        return "(assertexpr %s %s)" % (_assert(e[1], e[2]), sexpr(e[3]))
    if t == "local":
        return "(local (%s) %s)" % (" ".join(_bind(b) for b in e[1]), sexpr(e[2]))
    if t == "import":
        return "(%s (s %s))" % (e[1], _js(e[2]))
    if t == "error":
        return "(error %s)" % sexpr(e[1])
    if t == "apply":
        _, f, args, named, ts = e
        return "(apply %s (args%s) (named%s)%s)" % (
            sexpr(f), "".join(" " + sexpr(a) for a in args),
            "".join(" (%s %s)" % (n, sexpr(a)) for n, a in named), " tailstrict" if ts else "")
    if t == "index":
        # chains are flattened by the dumper
        parts = []
        cur = e
        while cur[0] == "index":
            parts.append(cur[2])
            cur = cur[1]
        return "(index %s%s)" % (sexpr(cur), "".join(" (part %s)" % sexpr(p) for p in reversed(parts)))
    if t == "fn":
        return "(fn %s %s)" % (_params(e[1]), sexpr(e[2]))
    if t == "if":
        return "(if %s %s%s)" % (sexpr(e[1]), sexpr(e[2]), "" if e[3] is None else " " + sexpr(e[3]))
    if t == "slice":
        return "(slice %s %s %s %s)" % (sexpr(e[1]), *("_" if v is None else sexpr(v) for v in e[2:5]))
    raise AssertionError(e)
