"""Reference definitions of standard-library functions, ported from the documented
definitions (the reference std.jsonnet algorithms) and working on Python JSON values
(numbers are floats, objects are dicts, functions are Fn wrappers around Python callables).

RefError = the definition fails (documented argument error); Abstain = the documentation does
not fix the outcome for these arguments.
"""
import base64 as _b64
import hashlib
import math


class RefError(Exception):
    pass


class Abstain(Exception):
    pass


class Fn:
    """a function value: python callable + arity"""

    def __init__(self, f, arity=1):
        self.f, self.arity = f, arity

    def __call__(self, *a):
        return self.f(*a)


def jtype(v):
    if v is None:
        return "null"
    if isinstance(v, bool):
        return "boolean"
    if isinstance(v, (int, float)):
        return "number"
    if isinstance(v, str):
        return "string"
    if isinstance(v, list):
        return "array"
    if isinstance(v, dict):
        return "object"
    if isinstance(v, Fn):
        return "function"
    raise AssertionError(v)


def need(v, *types):
    if jtype(v) not in types:
        raise RefError("expected %s, got %s" % ("/".join(types), jtype(v)))
    return v


def equals(a, b):
    ta, tb = jtype(a), jtype(b)
    if ta != tb:
        return False
    if ta == "function":
        raise RefError("cannot test equality of functions")
    if ta == "array":
        if len(a) != len(b):
            return False
        for x, y in zip(a, b):
            if not equals(x, y):
                return False
        return True
    if ta == "object":
        if sorted(a) != sorted(b):
            return False
        for k in sorted(a):
            if not equals(a[k], b[k]):
                return False
        return True
    return a == b


def compare(a, b):
    ta, tb = jtype(a), jtype(b)
    if ta != tb or ta not in ("number", "string", "array"):
        raise RefError("cannot compare %s with %s" % (ta, tb))
    if ta == "array":
        for x, y in zip(a, b):
            c = compare(x, y)
            if c:
                return c
        return (len(a) > len(b)) - (len(a) < len(b))
    return (a > b) - (a < b)


def is_int(x):
    return isinstance(x, (int, float)) and not isinstance(x, bool) and float(x) == int(x)


def call_bool(f, *a):
    r = f(*a)
    if not isinstance(r, bool):
        raise RefError("function must return boolean")
    return r


ident = Fn(lambda x: x)


# ----------------------------------------------------------------- C10
def sort(arr, keyF=ident):
    need(arr, "array")
    need(keyF, "function")
    if len(arr) <= 1:
        return list(arr)
    keyed = [(keyF(x), x) for x in arr]
    # every element takes part in at least one comparison with a neighbour in key order, so any
    # incomparable pair of key types makes the sort fail
    t0 = jtype(keyed[0][0])
    for k, _ in keyed:
        if jtype(k) != t0 or t0 not in ("number", "string", "array"):
            raise RefError("sort keys not comparable")
    import functools
    out = sorted(keyed, key=functools.cmp_to_key(lambda p, q: compare(p[0], q[0])))   # stable
    return [x for _, x in out]


def uniq(arr, keyF=ident):
    need(arr, "array")
    out = []
    for b in arr:
        if out and equals(keyF(out[-1]), keyF(b)):
            continue
        out.append(b)
    return out


def set_(arr, keyF=ident):
    return uniq(sort(arr, keyF), keyF)


def is_set(arr, keyF):
    if jtype(arr) != "array":
        return False
    try:
        ks = [keyF(x) for x in arr]
        return all(compare(ks[i], ks[i + 1]) < 0 for i in range(len(ks) - 1))
    except RefError:
        return False


def _sets(a, b, keyF):
    need(a, "array")
    need(b, "array")
    if not (is_set(a, keyF) and is_set(b, keyF)):
        raise Abstain("arguments are not sets under the key function")
    # keys of both must be mutually comparable
    ka = [keyF(x) for x in a]
    kb = [keyF(x) for x in b]
    if ka and kb and (jtype(ka[0]) != jtype(kb[0])):
        raise RefError("keys not comparable")
    return ka, kb


def setMember(x, arr, keyF=ident):
    need(arr, "array")
    if not is_set(arr, keyF):
        raise Abstain("not a set")
    kx = keyF(x)
    for e in arr:
        if compare(keyF(e), kx) == 0:
            return True
    return False


def setUnion(a, b, keyF=ident):
    ka, kb = _sets(a, b, keyF)
    i = j = 0
    out = []
    while i < len(a) and j < len(b):
        c = compare(ka[i], kb[j])
        if c == 0:
            out.append(a[i])
            i += 1
            j += 1
        elif c < 0:
            out.append(a[i])
            i += 1
        else:
            out.append(b[j])
            j += 1
    return out + a[i:] + b[j:]


def setInter(a, b, keyF=ident):
    ka, kb = _sets(a, b, keyF)
    return [x for x, k in zip(a, ka) if any(compare(k, k2) == 0 for k2 in kb)]


def setDiff(a, b, keyF=ident):
    ka, kb = _sets(a, b, keyF)
    return [x for x, k in zip(a, ka) if not any(compare(k, k2) == 0 for k2 in kb)]


def findSubstr(pat, s):
    need(pat, "string")
    need(s, "string")
    if pat == "":
        return []
    return [float(i) for i in range(0, len(s) - len(pat) + 1) if s[i:i + len(pat)] == pat]


def member(arr, x):
    if jtype(arr) == "array":
        return any(equals(e, x) for e in arr)
    if jtype(arr) == "string":
        need(x, "string")
        if x == "":
            raise Abstain("empty pattern")
        return len(findSubstr(x, arr)) != 0
    raise RefError("std.member first argument must be an array or a string")


def contains(arr, elem):
    need(arr, "array")
    return any(equals(e, elem) for e in arr)


def find(value, arr):
    need(arr, "array")
    return [float(i) for i, e in enumerate(arr) if equals(e, value)]


def count(arr, x):
    need(arr, "array")
    return float(sum(1 for e in arr if equals(e, x)))


def removeAt(arr, at):
    need(arr, "array")
    need(at, "number")
    if not is_int(at):
        raise Abstain("fractional index")
    return [e for i, e in enumerate(arr) if i != at]


def remove(arr, elem):
    need(arr, "array")
    for i, e in enumerate(arr):
        if equals(e, elem):
            return arr[:i] + arr[i + 1:]
    return list(arr)


def flattenArrays(arrs):
    need(arrs, "array")
    out = []
    for a in arrs:
        need(a, "array")
        out += a
    return out


def flattenDeepArray(v):
    if jtype(v) == "array":
        out = []
        for e in v:
            out += flattenDeepArray(e)
        return out
    return [v]


def foldl(func, arr, init):
    need(func, "function")
    if jtype(arr) == "string":
        raise Abstain("fold over string")
    need(arr, "array")
    acc = init
    for e in arr:
        acc = func(acc, e)
    return acc


def foldr(func, arr, init):
    need(func, "function")
    if jtype(arr) == "string":
        raise Abstain("fold over string")
    need(arr, "array")
    acc = init
    for e in reversed(arr):
        acc = func(e, acc)
    return acc


def _elems(arr):
    if jtype(arr) == "string":
        return list(arr)
    need(arr, "array")
    return arr


def map_(func, arr):
    need(func, "function")
    return [func(e) for e in _elems(arr)]


def mapWithIndex(func, arr):
    need(func, "function")
    return [func(float(i), e) for i, e in enumerate(_elems(arr))]


def filter_(func, arr):
    need(func, "function")
    need(arr, "array")
    return [e for e in arr if call_bool(func, e)]


def filterMap(ff, mf, arr):
    need(ff, "function")
    need(mf, "function")
    need(arr, "array")
    return [mf(e) for e in arr if call_bool(ff, e)]


def flatMap(func, arr):
    need(func, "function")
    if jtype(arr) == "array":
        out = []
        for e in arr:
            r = func(e)
            if r is None:
                raise Abstain("null from flatMap callback")
            need(r, "array")
            out += r
        return out
    if jtype(arr) == "string":
        out = ""
        for ch in arr:
            r = func(ch)
            if r is None:
                continue
            need(r, "string")
            out += r
        return out
    raise RefError("flatMap second param must be array / string")


def join(sep, arr):
    need(arr, "array")
    if jtype(sep) == "string":
        parts = []
        for e in arr:
            if e is None:
                continue
            need(e, "string")
            parts.append(e)
        return sep.join(parts)
    if jtype(sep) == "array":
        out = []
        first = True
        for e in arr:
            if e is None:
                continue
            need(e, "array")
            if not first:
                out += sep
            out += e
            first = False
        return out
    raise RefError("join first parameter should be string or array")


def lines(arr):
    need(arr, "array")
    return join("\n", arr + [""])


def deepJoin(v):
    if jtype(v) == "string":
        return v
    if jtype(v) == "array":
        return "".join(deepJoin(e) for e in v)
    raise RefError("deepJoin expected string or array")


def any_(arr):
    need(arr, "array")
    for e in arr:
        need(e, "boolean")
        if e:
            return True
    return False


def all_(arr):
    need(arr, "array")
    for e in arr:
        need(e, "boolean")
        if not e:
            return False
    return True


def sum_(arr):
    need(arr, "array")
    t = 0.0
    for e in arr:
        need(e, "number")
        t += e
    return t


def avg(arr):
    need(arr, "array")
    if not arr:
        raise RefError("empty array")
    return sum_(arr) / len(arr)


def minArray(arr, keyF=ident):
    need(arr, "array")
    if not arr:
        raise RefError("empty array")
    # the definition folds over the whole array starting from arr[0], so the key function is
    # applied (and may fail) even for a single element
    acc = arr[0]
    k0 = keyF(acc)
    if len(arr) == 1 and jtype(k0) not in ("number", "string", "array"):
        raise Abstain("single element with an incomparable key: only the reference implementation compares it with itself")
    for e in arr:
        if compare(keyF(e), keyF(acc)) < 0:
            acc = e
    return acc


def maxArray(arr, keyF=ident):
    need(arr, "array")
    if not arr:
        raise RefError("empty array")
    acc = arr[0]
    k0 = keyF(acc)
    if len(arr) == 1 and jtype(k0) not in ("number", "string", "array"):
        raise Abstain("single element with an incomparable key: only the reference implementation compares it with itself")
    for e in arr:
        if compare(keyF(e), keyF(acc)) > 0:
            acc = e
    return acc


def range_(a, b):
    need(a, "number")
    need(b, "number")
    if not (is_int(a) and is_int(b)):
        raise Abstain("fractional range bound")
    if abs(a) > 2 ** 31 - 1 or abs(b) > 2 ** 31 - 1 or b - a > 100000:
        raise Abstain("range too large to model")
    return [float(i) for i in range(int(a), int(b) + 1)]


def repeat(what, cnt):
    if jtype(what) not in ("string", "array"):
        raise RefError("repeat first argument must be an array or a string")
    need(cnt, "number")
    if not is_int(cnt) or cnt < 0:
        raise RefError("count must be a non-negative integer")
    if cnt * max(1, len(what)) > 200000:
        raise Abstain("too large to model")
    return what * int(cnt)


def makeArray(sz, func):
    need(sz, "number")
    need(func, "function")
    if not is_int(sz) or sz < 0:
        raise RefError("makeArray size must be a non-negative integer")
    if sz > 100000:
        raise Abstain("too large")
    return [func(float(i)) for i in range(int(sz))]


def slice_(indexable, index, end, step):
    if jtype(indexable) not in ("string", "array"):
        raise RefError("std.slice accepts a string or an array")
    for x in (index, end, step):
        if x is not None:
            need(x, "number")
            if not is_int(x):
                raise Abstain("fractional slice argument")
    if step is not None and step <= 0:
        raise RefError("step must be positive")
    return indexable[slice(None if index is None else int(index), None if end is None else int(end),
                           None if step is None else int(step))]


# ----------------------------------------------------------------- C11
def length(x):
    t = jtype(x)
    if t in ("string", "array", "object"):
        return float(len(x))
    if t == "function":
        return float(x.arity)
    raise RefError("length of " + t)


def substr(s, frm, ln):
    need(s, "string")
    need(frm, "number")
    need(ln, "number")
    if not is_int(frm) or frm < 0:
        raise RefError("substr second parameter should be an integer >= 0")
    if not is_int(ln) or ln < 0:
        raise RefError("substr third parameter should be an integer >= 0")
    return s[int(frm):int(frm) + int(ln)]


def split(s, c):
    need(s, "string")
    need(c, "string")
    if c == "":
        raise Abstain("empty delimiter")
    return s.split(c)


def splitLimit(s, c, maxsplits):
    need(s, "string")
    need(c, "string")
    need(maxsplits, "number")
    if c == "":
        raise Abstain("empty delimiter")
    if not is_int(maxsplits):
        raise Abstain("fractional maxsplits")
    if maxsplits == -1:
        return s.split(c)
    if maxsplits < -1:
        raise Abstain("maxsplits < -1")
    return s.split(c, int(maxsplits))


def splitLimitR(s, c, maxsplits):
    need(s, "string")
    need(c, "string")
    need(maxsplits, "number")
    if c == "":
        raise Abstain("empty delimiter")
    if not is_int(maxsplits):
        raise Abstain("fractional maxsplits")
    if maxsplits == -1:
        return s.split(c)
    if maxsplits < -1:
        raise Abstain("maxsplits < -1")
    return s.rsplit(c, int(maxsplits))


def strReplace(s, frm, to):
    need(s, "string")
    need(frm, "string")
    need(to, "string")
    if frm == "":
        raise RefError("'from' string must not be zero length")
    return s.replace(frm, to)


def startsWith(a, b):
    need(a, "string")
    need(b, "string")
    return a.startswith(b)


def endsWith(a, b):
    need(a, "string")
    need(b, "string")
    return a.endswith(b)


def _chars(chars):
    if jtype(chars) == "string":
        return set(chars)
    if jtype(chars) == "array":
        raise Abstain("array of chars")
    raise RefError("chars must be string")


def lstripChars(s, chars):
    need(s, "string")
    cs = _chars(chars)
    i = 0
    while i < len(s) and s[i] in cs:
        i += 1
    return s[i:]


def rstripChars(s, chars):
    need(s, "string")
    cs = _chars(chars)
    j = len(s)
    while j > 0 and s[j - 1] in cs:
        j -= 1
    return s[:j]


def stripChars(s, chars):
    return lstripChars(rstripChars(s, chars), chars)


def trim(s):
    need(s, "string")
    return stripChars(s, " \t\n\f\r\u0085 ")


def _ascii_map(s, f):
    need(s, "string")
    return "".join(f(c) if ord(c) < 128 else c for c in s)


def asciiUpper(s):
    return _ascii_map(s, lambda c: c.upper())


def asciiLower(s):
    return _ascii_map(s, lambda c: c.lower())


def stringChars(s):
    need(s, "string")
    return list(s)


def codepoint(s):
    need(s, "string")
    if len(s) != 1:
        raise RefError("codepoint takes a string of length 1")
    return float(ord(s))


def char(n):
    need(n, "number")
    if not is_int(n):
        raise Abstain("fractional code point")
    if n < 0 or n > 0x10FFFF or 0xD800 <= n <= 0xDFFF:
        raise RefError("invalid code point")
    return chr(int(n))


def equalsIgnoreCase(a, b):
    need(a, "string")
    need(b, "string")
    return asciiLower(a) == asciiLower(b)


def isEmpty(s):
    need(s, "string")
    return len(s) == 0


def parseInt(s):
    need(s, "string")
    if s == "" or s == "-":
        raise RefError("not an integer")
    neg = s[0] == "-"
    digits = s[1:] if neg else s
    if digits == "" or any(c not in "0123456789" for c in digits):
        raise RefError("not a base 10 integer")
    v = float(int(digits))
    if not math.isfinite(v):
        raise Abstain("overflow")
    if int(digits) > 2 ** 53:
        raise Abstain("beyond exact double range (accumulated rounding differs)")
    return -v if neg else v


def _parse_base(s, base, alphabet):
    need(s, "string")
    if s == "":
        raise RefError("empty string")
    low = s.lower()
    if any(c not in alphabet for c in low):
        raise RefError("not a base %d integer" % base)
    v = int(low, base)
    if v > 2 ** 53:
        raise Abstain("beyond exact double range")
    return float(v)


def parseOctal(s):
    return _parse_base(s, 8, "01234567")


def parseHex(s):
    return _parse_base(s, 16, "0123456789abcdef")


def encodeUTF8(s):
    need(s, "string")
    return [float(b) for b in s.encode("utf-8")]


def decodeUTF8(arr):
    need(arr, "array")
    bs = bytearray()
    for e in arr:
        need(e, "number")
        if not is_int(e) or e < 0 or e > 255:
            raise RefError("array of bytes expected")
        bs.append(int(e))
    try:
        return bytes(bs).decode("utf-8")
    except UnicodeDecodeError:
        raise Abstain("invalid UTF-8: replacement vs error not fixed")


def base64(v):
    if jtype(v) == "string":
        if any(ord(c) > 255 for c in v):
            raise Abstain("string with code points above 255 (reference encodes code points, others UTF-8)")
        if any(ord(c) > 127 for c in v):
            raise Abstain("non-ASCII string: byte vs code point encoding differs between implementations")
        data = v.encode("latin-1")
    elif jtype(v) == "array":
        bs = bytearray()
        for e in v:
            need(e, "number")
            if not is_int(e) or e < 0 or e > 255:
                raise RefError("array of bytes expected")
            bs.append(int(e))
        data = bytes(bs)
    else:
        raise RefError("base64 takes string or array of bytes")
    return _b64.b64encode(data).decode("ascii")


def _b64decode(s):
    need(s, "string")
    if len(s) % 4 != 0:
        raise RefError("not a base64 encoded string")
    import re
    if not re.fullmatch(r"[A-Za-z0-9+/]*={0,2}", s):
        raise RefError("not a base64 encoded string")
    try:
        return _b64.b64decode(s, validate=True)
    except Exception:
        raise RefError("not a base64 encoded string")


def base64DecodeBytes(s):
    return [float(b) for b in _b64decode(s)]


def base64Decode(s):
    data = _b64decode(s)
    if any(b > 127 for b in data):
        raise Abstain("non-ASCII bytes: byte-to-code-point vs UTF-8 decoding differs between implementations")
    return data.decode("ascii")


def _hash(name):
    def f(s):
        need(s, "string")
        return getattr(hashlib, name)(s.encode("utf-8")).hexdigest()
    return f


md5, sha1, sha256, sha512, sha3 = _hash("md5"), _hash("sha1"), _hash("sha256"), _hash("sha512"), _hash("sha3_512")


def escapeStringJson(s):
    import json
    if jtype(s) != "string":
        raise Abstain("non-string argument is converted first")
    out = ['"']
    for ch in s:
        o = ord(ch)
        if ch == '"':
            out.append('\\"')
        elif ch == "\\":
            out.append("\\\\")
        elif ch == "\b":
            out.append("\\b")
        elif ch == "\f":
            out.append("\\f")
        elif ch == "\n":
            out.append("\\n")
        elif ch == "\r":
            out.append("\\r")
        elif ch == "\t":
            out.append("\\t")
        elif o < 32 or (127 <= o <= 159):
            out.append("\\u%04x" % o)
        else:
            out.append(ch)
    out.append('"')
    return "".join(out)


def escapeStringBash(s):
    if jtype(s) != "string":
        raise Abstain("non-string")
    return "'" + s.replace("'", "'\"'\"'") + "'"


def escapeStringDollars(s):
    if jtype(s) != "string":
        raise Abstain("non-string")
    return s.replace("$", "$$")


def escapeStringXML(s):
    if jtype(s) != "string":
        raise Abstain("non-string")
    return (s.replace("&", "&amp;").replace("<", "&lt;").replace(">", "&gt;").replace('"', "&quot;").replace("'", "&apos;"))


# ----------------------------------------------------------------- C13 (plain JSON objects; the
# inheritance-aware versions are checked through the reference interpreter)
def mergePatch(target, patch):
    if jtype(patch) == "object":
        t = target if jtype(target) == "object" else {}
        out = {}
        for k in t:
            if k not in patch:
                out[k] = t[k]
        for k, v in patch.items():
            if v is None:
                continue
            out[k] = mergePatch(t.get(k), v) if k in t else mergePatch(None, v)
        return out
    return patch


def prune(a):
    def is_content(b):
        if b is None:
            return False
        if jtype(b) == "array":
            return len(b) > 0
        if jtype(b) == "object":
            return len(b) > 0
        return True
    if jtype(a) == "array":
        return [prune(x) for x in a if is_content(prune(x))]
    if jtype(a) == "object":
        return {k: prune(v) for k, v in a.items() if is_content(prune(v))}
    return a


def xor(a, b):
    need(a, "boolean")
    need(b, "boolean")
    return a != b


def xnor(a, b):
    need(a, "boolean")
    need(b, "boolean")
    return a == b


def primitiveEquals(a, b):
    ta, tb = jtype(a), jtype(b)
    if ta != tb:
        return False
    if ta in ("array", "object"):
        raise RefError("primitiveEquals operates on primitive types")
    if ta == "function":
        raise RefError("cannot test equality of functions")
    return a == b


def parseJson(s):
    """only used on texts produced by json.dumps (well-formed by construction)"""
    import json as _json
    if not isinstance(s, str):
        raise RefError("parseJson expects a string")
    try:
        return _json.loads(s, parse_int=float)
    except ValueError:
        raise Abstain("reader-specific rejection")


REF = {
    "parseJson": parseJson,
    "sort": sort, "uniq": uniq, "set": set_, "setMember": setMember, "setUnion": setUnion, "setInter": setInter,
    "setDiff": setDiff, "member": member, "contains": contains, "find": find, "count": count, "remove": remove,
    "removeAt": removeAt, "flattenArrays": flattenArrays, "flattenDeepArray": flattenDeepArray, "foldl": foldl,
    "foldr": foldr, "map": map_, "mapWithIndex": mapWithIndex, "filter": filter_, "filterMap": filterMap,
    "flatMap": flatMap, "join": join, "lines": lines, "deepJoin": deepJoin, "any": any_, "all": all_, "sum": sum_,
    "avg": avg, "minArray": minArray, "maxArray": maxArray, "range": range_, "repeat": repeat, "slice": slice_,
    "makeArray": makeArray,
    "length": length, "substr": substr, "split": split, "splitLimit": splitLimit, "splitLimitR": splitLimitR,
    "strReplace": strReplace, "findSubstr": findSubstr, "startsWith": startsWith, "endsWith": endsWith,
    "stripChars": stripChars, "lstripChars": lstripChars, "rstripChars": rstripChars, "trim": trim,
    "asciiUpper": asciiUpper, "asciiLower": asciiLower, "stringChars": stringChars, "codepoint": codepoint,
    "char": char, "equalsIgnoreCase": equalsIgnoreCase, "isEmpty": isEmpty, "parseInt": parseInt,
    "parseOctal": parseOctal, "parseHex": parseHex, "encodeUTF8": encodeUTF8, "decodeUTF8": decodeUTF8,
    "base64": base64, "base64Decode": base64Decode, "base64DecodeBytes": base64DecodeBytes, "md5": md5, "sha1": sha1,
    "sha256": sha256, "sha512": sha512, "sha3": sha3, "escapeStringJson": escapeStringJson,
    "escapeStringPython": escapeStringJson, "escapeStringBash": escapeStringBash,
    "escapeStringDollars": escapeStringDollars, "escapeStringXML": escapeStringXML,
    "mergePatch": mergePatch, "prune": prune, "xor": xor, "xnor": xnor, "primitiveEquals": primitiveEquals,
    "equals": equals,
}
