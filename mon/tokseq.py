"""Token-sequence workloads shared by C06 / C17 / C20: exhaustive short sequences over a
reduced token alphabet, random longer ones, hostile raw texts, and mutations of valid
programs; plus a delta-debugging reducer so that a disagreement is keyed by its minimal
token core (the signature used for known-findings matching)."""
import itertools

ALPHABET = ["x", "1", '"s"', "(", ")", "[", "]", "{", "}", ":", "::", ",", ";", ".", "+", "-", "!",
            "=", "==", "local", "if", "then", "else", "function", "for", "in", "error", "assert",
            "import", "self", "super", "$", "tailstrict"]
# tokens outside the exhaustive alphabet, used by the random sequences
EXTRA = ["y", "0.5", "1e3", "1_000", "'t'", "@'v''v'", '@"w"', "|||\n  t\n|||", ":::", "*", "/", "%", "~",
         "!=", "<", "<=", ">", ">=", "<<", ">>", "&", "|", "^", "&&", "||", "importstr", "importbin",
         "null", "true", "false", "+:", "+::", "// c\n", "/* c */", "# c\n", "std", "\n", "\t"]

VALID_PROGRAMS = [
    "local a = 1; a",
    "local f(x, y=2) = x + y; f(1) + f(1, 3) + f(y=1, x=2)",
    "local f = function(x) x; f(1) tailstrict",
    "{a: 1, b+: {c: 2}, [\"d\"]: 2, e:: 3, f::: 4, g(x): x, assert true : 'm', local z = 3}",
    "{[k]: 1 for k in ['a', 'b'] if k != 'a'}",
    "[x * y for x in [1, 2, 3] for y in [4, 5] if x != y]",
    "local a = [1, 2, 3]; a[0] + a[1:2][0] + a[::2][0] + a[1:][0] + a[:1][0]",
    "local o = {a: 1} + {a+: 2, b: super.a}; o.b + o['a'] + {x: 1}.x",
    "if true then 1 else 2",
    "if true then 1",
    "assert 1 == 1 : 'x'; -1 + !true + ~5 + (1 << 3) % 2 * 3 / 4 - 5",
    "1 < 2 && 2 <= 3 || 3 > 4 && 4 >= 5 && 1 != 2 && 'a' in {a: 1}",
    "1 & 2 | 3 ^ 4",
    "error 'x'",
    "import 'a.jsonnet'",
    "importstr 'a.txt'",
    "importbin 'a.bin'",
    "local o = {a: 1}; o {b: 2}",
    "function(a, b=2) a + b",
    "self.a + super.b + $.c",
    "{a: self.b, b: 1, c: $.a, d: {e: $.b}}",
    "\"a\\n\\t\\\"\\\\\\u00e9\" + 'b\\'' + @\"c\"\"d\" + @'e''f'",
    "|||\n  text\n   more\n\n  end\n|||",
    "|||-\n  text\n|||",
    # chomped and plain text blocks whose body ends in blank lines / consists of blank lines (only one final newline is chomped)
    "|||-\n  text\n\n|||", "|||-\n  text\n\n\n|||", "|||\n  text\n\n|||", "|||-\n  a\n\n  b\n\n\n|||", "|||-\n\n  text\n\n|||",
    "[|||-\n  x\n\n|||, |||\n  y\n\n\n|||]", "|||-\n\ttext\n\n|||",
    "1.5e10 + 1e-3 + 0.5 + 100 + 1_000",
    "a.b.c[1][2](3).d",
    "f(1)(2)[3].x {y: 1}",
    "local a = 1, b = 2; a + b",
    "{local a = 1, b: a, c(x):: x, d(x, y=1)::: x + y}",
    "[1, 2, 3,]",
    "{a: 1, b: 2,}",
    "f(1, 2,)",
    "function(a, b,) a",
    "local f(a, b,) = a; f",
    "[x for x in [1, 2, 3]]",
    "{['a' + x]: x for x in ['b']}",
    "{local y = 1, [x]: y for x in ['b']}",
    "-x + +y - !z",
    "a in b",
    "'a' in super",
    "null == true != false",
    "x tailstrict",
    "(1)",
    "[[1, 2], [3]][0][1]",
    "{assert self.a > 0, a: 1}",
    "std.length('abc')",
    "local a = 1; // comment\n/* block */ a # hash\n",
]


def exhaustive(maxlen, alphabet=None):
    alphabet = alphabet or ALPHABET
    for n in range(1, maxlen + 1):
        for t in itertools.product(alphabet, repeat=n):
            yield t


def count_exhaustive(maxlen, alphabet=None):
    k = len(alphabet or ALPHABET)
    return sum(k ** n for n in range(1, maxlen + 1))


def shard_exhaustive(maxlen, idx, n, alphabet=None):
    """Sequences of this shard: partition by position in enumeration order."""
    for i, t in enumerate(exhaustive(maxlen, alphabet)):
        if i % n == idx:
            yield t


def random_seqs(rng, count, minlen, maxlen, alphabet=None):
    al = (alphabet or ALPHABET) + EXTRA
    for _ in range(count):
        yield tuple(rng.choice(al) for _ in range(rng.randrange(minlen, maxlen + 1)))


def text_of(tokens):
    return " ".join(tokens)


def hostile_texts(rng, count):
    """raw texts: random bytes decoded leniently, random Unicode, unterminated literals"""
    pieces = ['"', "'", "@'", '@"', "|||", "|||\n", "/*", "*/", "//", "#", "\\", "\\u", "\\ud83d", "\x00",
              "\r\n", "\r", "\n", "\t", " ", "é", "漢", "😀", " ", "﻿", "1.", "1e", "1e+", "0x", "1_",
              "_1", "..", "...", "::::", "+:::", "$$", "@", "`", "?", "??", "a", "local", "1", "{", "}", "(", ")",
              "[", "]"]
    for _ in range(count):
        k = rng.random()
        if k < 0.3:
            yield bytes(rng.randrange(256) for _ in range(rng.randrange(1, 30))).decode("utf-8", "replace")
        elif k < 0.4:
            yield "".join(chr(rng.choice((rng.randrange(0x20, 0x7f), rng.randrange(0xa0, 0x3000),
                                          rng.randrange(0x10000, 0x10400))))
                          for _ in range(rng.randrange(1, 20)))
        else:
            yield "".join(rng.choice(pieces) for _ in range(rng.randrange(1, 12)))


def mutants(rng, count):
    toks = ALPHABET + EXTRA
    for _ in range(count):
        s = rng.choice(VALID_PROGRAMS)
        m = rng.random()
        i = rng.randrange(len(s) + 1)
        if m < 0.25:
            s = s[:i] + s[i + 1:]
        elif m < 0.5:
            s = s[:i] + " " + rng.choice(toks) + " " + s[i:]
        elif m < 0.65:
            s = s[:i]
        elif m < 0.8:
            j = rng.randrange(len(s) + 1)
            s = s[:min(i, j)] + s[max(i, j):]
        else:
            j = rng.randrange(len(s) + 1)
            a, b = min(i, j), max(i, j)
            s = s[:a] + s[a:b] + s[a:b] + s[b:]
        yield s


def ddmin(tokens, still_fails, max_calls=300):
    """Delta debugging: remove contiguous windows (large to small) while the failure persists."""
    cur = list(tokens)
    calls = 0
    size = max(1, len(cur) // 2)
    while size >= 1 and len(cur) > 1 and calls < max_calls:
        removed = False
        i = 0
        while i + size <= len(cur) and calls < max_calls:
            cand = cur[:i] + cur[i + size:]
            calls += 1
            if cand and still_fails(cand):
                cur = cand
                removed = True
            else:
                i += 1
        if not removed or size > len(cur):
            size //= 2
        else:
            size = min(size, max(1, len(cur) // 2))
    return cur


def bulk(worker, texts, fmt=False, batch=1500):
    """yield (text, rec) for every text, through the worker's bulk monitor"""
    buf = []

    def flush():
        rec = worker.call({"op": "bulk", "texts": buf, "fmt": fmt}, timeout=300)
        if "res" not in rec:
            # the batch died (crash/timeout): retry one by one to attribute
            out = []
            for t in buf:
                r = worker.call({"op": "bulk", "texts": [t], "fmt": fmt}, timeout=60)
                out.append((t, r["res"][0] if "res" in r else {"dead": r}))
            return out
        return list(zip(buf, rec["res"]))

    for t in texts:
        buf.append(t)
        if len(buf) >= batch:
            for x in flush():
                yield x
            buf = []
    if buf:
        for x in flush():
            yield x
