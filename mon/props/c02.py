"""C02 - object inheritance, late binding and visibility follow the object model.

Workload: exhaustive chains of up to 2 (quick) / 3 (thorough, sampled + reduced-exhaustive)
object layers over names {a, b} and all member kinds (absent, plain, +:, ::, :::, +::,
self / super / $ reference, `in super` reporter, object-local-backed), composed by `+` and by
`base { ... }`, with std.objectRemoveKey applied at every position and object-level asserts.
Each composed object is probed by: field name lists (visible / all), objectHas / objectHasAll /
`in` for every name, every field read (value or error), equality with a rebuilt copy, and
manifestation.  Oracle: the reference object model in mon/ref/interp.py.
"""
import itertools
import json

from .. import runner, sanit
from ..common import outcome, strict_json, deep_equal, panic_sig
from ..gen import prog
from ..ref import interp, jast
from . import c01

PROP = "C02"
N, S, V = prog.N, prog.S, prog.V
NAMES = ["a", "b"]
ABSENT = "zz"
SELF, SUPER, DOLLAR = ("lit", "self"), ("lit", "super"), ("lit", "$")

KINDS = ["absent", "plain", "plus", "hidden", "unhide", "plus_hidden", "self_other", "super_same",
         "in_super", "dollar_other", "local_backed", "super_other", "self_same_plus"]
KINDS_REDUCED = ["absent", "plain", "plus", "hidden", "unhide", "self_other", "super_same", "in_super"]


def member(kind, name, layer):
    other = NAMES[1 - NAMES.index(name)]
    v = N(layer * 10 + NAMES.index(name) + 1)
    f = lambda val, vis=":", plus=False: [("field", ("fixed", name), plus, vis, None, val)]
    if kind == "absent":
        return []
    if kind == "plain":
        return f(v)
    if kind == "plus":
        return f(v, ":", True)
    if kind == "hidden":
        return f(v, "::")
    if kind == "unhide":
        return f(v, ":::")
    if kind == "plus_hidden":
        return f(v, "::", True)
    if kind == "self_other":
        return f(("index", SELF, S(other), "dot"))
    if kind == "super_same":
        return f(("index", SUPER, S(name), "dot"))
    if kind == "super_other":
        return f(("bin", "+", ("index", SUPER, S(other), "dot"), N(1000)))
    if kind == "in_super":
        return f(("arr", [("bin", "in", S(name), SUPER), ("bin", "in", S(other), SUPER)]))
    if kind == "dollar_other":
        return f(("bin", "+", ("index", DOLLAR, S(other), "dot"), N(100)))
    if kind == "local_backed":
        ln = "l_%s%d" % (name, layer)
        return [("olocal", ("bind", ln, ("bin", "+", v, N(0.5))))] + f(V(ln))
    if kind == "self_same_plus":
        # +: whose own value reads the other field through self
        return f(("index", SELF, S(other), "dot"), ":", True)
    raise AssertionError(kind)


ASSERTS = {
    "none": [],
    "true": [("oassert", ("lit", "true"), None)],
    "false": [("oassert", ("lit", "false"), S("boom"))],
    "self_a_is_number": [("oassert", ("bin", "==", prog.STD("type", ("index", SELF, S("a"), "dot")), S("number")), None)],
    "a_in_self": [("oassert", ("bin", "in", S("a"), SELF), None)],
}


def layer_node(kinds, layer, assert_kind="none"):
    members = []
    for name, k in zip(NAMES, kinds):
        members += member(k, name, layer)
    return ("obj", members + ASSERTS[assert_kind])


def compose(layers, style, remove):
    """layers: list of obj nodes; style: '+' | 'ext'; remove: None | (position, name)"""
    acc = layers[0]
    if remove is not None and remove[0] == 0:
        acc = prog.STD("objectRemoveKey", acc, S(remove[1]))
    for i, L in enumerate(layers[1:], 1):
        if remove is not None and remove[0] == i and len(remove) > 2:
            # the key is removed from the *right* operand before it is added: fields of that name further left stay
            acc = ("bin", "+", acc, prog.STD("objectRemoveKey", L, S(remove[1])))
            continue
        acc = ("bin", "+", acc, L) if style == "+" else ("objext", acc, L)
        if remove is not None and remove[0] == i:
            acc = prog.STD("objectRemoveKey", acc, S(remove[1]))
    return acc


def probes():
    o = V("o")
    names = NAMES + [ABSENT]
    struct = ("obj", [
        ("field", ("fixed", "f"), False, ":", None, prog.STD("objectFields", o)),
        ("field", ("fixed", "fa"), False, ":", None, prog.STD("objectFieldsAll", o)),
        ("field", ("fixed", "h"), False, ":", None, ("arr", [prog.STD("objectHas", o, S(n)) for n in names])),
        ("field", ("fixed", "ha"), False, ":", None, ("arr", [prog.STD("objectHasAll", o, S(n)) for n in names])),
        ("field", ("fixed", "i"), False, ":", None, ("arr", [("bin", "in", S(n), o) for n in names])),
        ("field", ("fixed", "len"), False, ":", None, prog.STD("length", o)),
    ])
    out = [("structure", struct)]
    for n in names:
        out.append(("read:" + n, ("index", o, S(n), "dot")))
    out.append(("manifest", o))
    out.append(("equals-rebuilt", ("bin", "==", o, V("o2"))))
    out.append(("reads-in-one-program", ("arr", [("index", o, S("b"), "dot"), ("index", o, S("a"), "dot"), o,
                                                   ("index", o, S("a"), "dot")])))
    return out


PROBES = probes()


def chains(tier, rng):
    ks = KINDS
    # 1 layer
    for k in itertools.product(ks, repeat=2):
        for a in ASSERTS:
            yield ([(k, a)], "+", None)
        yield ([(k, "none")], "+", (0, "a"))
    # 2 layers, exhaustive over kinds; composition style and removal position rotate deterministically
    styles = ["+", "ext"]
    removes = [None, (0, "a"), (1, "a"), (0, "b"), (1, "b")]
    i = 0
    for k0 in itertools.product(ks, repeat=2):
        for k1 in itertools.product(ks, repeat=2):
            i += 1
            yield ([(k0, "none"), (k1, "none")], styles[i % 2], None)
            yield ([(k0, "none"), (k1, "none")], styles[(i + 1) % 2], removes[1 + i % 4])
            if i % 3 == 0:
                yield ([(k0, "none"), (k1, "none")], "+", (1, NAMES[i % 2], "right"))
            if i % 5 == 0:
                akinds = list(ASSERTS)
                yield ([(k0, akinds[i % 5]), (k1, akinds[(i // 5) % 5])], "+", None)
    # the same layer value used twice in one chain (mixins applied repeatedly)
    reuse_kinds = ["plain", "plus", "hidden", "super_same", "super_other", "in_super", "local_backed", "self_other", "dollar_other"]
    j = 0
    for k0 in itertools.product(["plain", "hidden", "local_backed", "absent"], repeat=2):
        for k1 in itertools.product(reuse_kinds, repeat=2):
            j += 1
            for order in ([0, 1, 1], [0, 1, 0, 1], [1, 0, 1], [0, 0, 1]):
                if tier == "quick" and (j + len(order)) % 2:
                    continue
                yield ([(k0, "none"), (k1, "none")], "+", None, order)
            if j % 4 == 0:
                yield ([(k0, "none"), (k1, "true")], "+", (1, "a"), [0, 1, 1])
    # 3 layers
    if tier == "quick":
        for _ in range(6000):
            ls = [(tuple(rng.choice(ks) for _ in NAMES), rng.choice(["none", "none", "none", "true", "false", "self_a_is_number"]))
                  for _ in range(3)]
            yield (ls, rng.choice(styles), rng.choice([None, None] + [(p, n) for p in range(3) for n in NAMES] + [(p, n, "right") for p in (1, 2) for n in NAMES]))
    else:
        kr = KINDS_REDUCED
        for k0 in itertools.product(kr, repeat=2):
            for k1 in itertools.product(kr, repeat=2):
                for k2 in itertools.product(kr, repeat=2):
                    i += 1
                    yield ([(k0, "none"), (k1, "none"), (k2, "none")], styles[i % 2],
                           None if i % 3 else (i % 3, NAMES[i % 2]))
        for _ in range(150000):
            nl = rng.choice([3, 4, 5, 6])
            ls = [(tuple(rng.choice(ks) for _ in NAMES), rng.choice(["none", "none", "none", "true", "false", "a_in_self"]))
                  for _ in range(nl)]
            yield (ls, rng.choice(styles), rng.choice([None, None] + [(p, n) for p in range(nl) for n in NAMES] + [(p, n, "right") for p in range(1, nl) for n in NAMES]))


def build(spec):
    """-> (binds, chain expr): layers are bound to locals m<i> when the chain order reuses one
    of them (the same object value appearing twice in a chain)"""
    layers_spec, style, remove = spec[:3]
    order = spec[3] if len(spec) > 3 else None
    nodes = [layer_node(k, i, a) for i, (k, a) in enumerate(layers_spec)]
    if order is None:
        return [], compose(nodes, style, remove)
    binds = [("bind", "m%d" % i, nd) for i, nd in enumerate(nodes)]
    return binds, compose([V("m%d" % i) for i in order], "+", remove)


def check_chain(acc, w, spec):
    layers_spec = spec[0]
    remove = spec[2]
    binds, chain = build(spec)
    allok = True
    label = "chain:%d" % len(spec[3] if len(spec) > 3 else layers_spec)
    for pname, probe in PROBES:
        ast = ("local", binds + [("bind", "o", chain), ("bind", "o2", chain)], probe)
        it = interp.Interp()
        try:
            ref = it.run(ast)
        except (interp.Abstain, RecursionError):
            acc.inc("abstained")
            continue
        src = jast.to_source(ast)
        acc.inc("evaluations")
        got, _ = c01.observe(w, {"op": "eval", "code": src, "state_id": "s"})
        extra = {"probe": pname.split(":")[0], "layers": len(layers_spec), "removeKey": remove is not None}
        if not c01.compare(acc, label, src, ref, got, {"probe": pname, "spec": repr(spec)}, extra):
            allok = False
        else:
            acc.inc("probe_" + pname.split(":")[0])
    # history shape: the prefix of the chain is bound to a local and *forced* (manifested) before the last layer is
    # added to that same value (comparing it with a copy reads every visible field and runs its assertions) - what the prefix learnt about itself (assertions checked, fields cached) must not
    # leak into the extended object, whose `self` is a different object
    if len(layers_spec) >= 2 and len(spec) == 3:
        nodes = [layer_node(k, i, a) for i, (k, a) in enumerate(layers_spec)]
        pre = compose(nodes[:-1], spec[1], remove if remove is not None and remove[0] < len(nodes) - 1 else None)
        for style in ("+", "objext"):
            ext = ("bin", "+", V("pre"), nodes[-1]) if style == "+" else ("objext", V("pre"), nodes[-1])
            ast = ("local", [("bind", "pre", pre)],
                   ("local", [("bind", "forced", ("bin", "==", V("pre"), ("objext", V("pre"), ("obj", [])))), ("bind", "o", ext)],
                    ("if", ("bin", "||", V("forced"), ("un", "!", V("forced"))), V("o"), ("lit", "null"))))
            try:
                ref = interp.Interp().run(ast)
            except (interp.Abstain, RecursionError):
                acc.inc("abstained")
                continue
            src = jast.to_source(ast)
            acc.inc("evaluations")
            got, _ = c01.observe(w, {"op": "eval", "code": src, "state_id": "s"})
            if not c01.compare(acc, label, src, ref, got, {"probe": "forced-prefix:" + style, "spec": repr(spec)},
                               {"probe": "forced-prefix", "layers": len(layers_spec), "removeKey": remove is not None}):
                allok = False
            else:
                acc.inc("probe_forced-prefix")
    if allok:
        acc.distinct(repr(spec))
        for k, _ in layers_spec:
            for kind in k:
                acc.add("member_kinds", kind)


def shard(idx, n, tier, seed, binary):
    acc = runner.Acc()
    rng = runner.rng_for(seed, "c02")
    w = runner.Worker(binary)
    try:
        for i, spec in enumerate(chains(tier, rng)):
            if i % n != idx:
                continue
            check_chain(acc, w, spec)
            if i == idx:
                acc.sample({"chain": jast.to_source(build(spec)[1])})
    finally:
        w.close()
    if idx == 0:
        nodes = [layer_node(("plus", "self_other"), 0), layer_node(("super_same", "hidden"), 1)]
        acc.sample({"chain": jast.to_source(compose(nodes, "ext", (0, "a")))})
    return acc


def run(tier, seed, t0):
    bins = runner.build("rel")
    accs = runner.shard_map(shard, (tier, seed, bins["jv-worker"]))
    acc = runner.Acc()
    for a in accs:
        acc.merge(a)
    # object identity (WeakObjValue hashing reads a Weak as an integer), the per-(object, layer) value cache and
    # the cached object-local contexts under the memory monitors
    sanit.run_pass(acc, PROP, tier, seed, quick={"asan": 160}, thorough={"asan": 2400, "memcheck": 320, "miri": 128})
    return runner.finish(
        PROP, tier, seed, "exploration", acc, t0,
        rule="exhaustive: every 1- and 2-layer chain over names {a,b} x %d member kinds per name (absent, plain, "
             "+:, ::, :::, +::, self.other, super.same, super.other, `in super` reporter, $.other, object-local, "
             "+: reading self), composed by `+` / `base {..}`, std.objectRemoveKey at rotating positions, object "
             "asserts on every 5th; 3-layer chains sampled (quick) or exhaustive over %d kinds + random up to 6 "
             "layers (thorough). Each chain x 8 probes (structure lists, 3 reads, manifestation, equality with a "
             "rebuilt copy, several reads in one program). distinct_nontrivial = distinct chains on which every "
             "probe agreed with the reference object model" % (len(KINDS), len(KINDS_REDUCED)),
        assumptions=["std.objectRemoveKey(o, k) = o with k invisible to every lookup that starts above the removal "
                     "point (the property's own definition)"],
        exhaustive=False, min_events=5000,
        extra={"exhaustive_part": "all chains of <= 2 layers over the listed member kinds"})


def replay(path):
    w = json.load(open(path))["witness"]
    wk = runner.Worker(runner.build("rel")["jv-worker"])
    print(json.dumps({"source": w["source"], "observed": wk.call({"op": "eval", "code": w["source"]}),
                      "expected": w.get("expected")}, indent=1, default=str)[:4000])
    wk.close()
    return 0
