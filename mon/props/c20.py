"""C20 - formatting is idempotent and never crashes.

Observed: panic events of `format` (and of the syntax-tree parser under it) on arbitrary
input, `format(format(x))` vs `format(x)` for every accepted program and indent setting,
and `jrsonnet-fmt` followed by `jrsonnet-fmt --test` on a CLI sample.
"""
import json
import os
import re
import subprocess
import tempfile

from .. import runner, tokseq, fmtlib
from ..common import panic_sig

PROP = "C20"
INDENTS = (0, 2, 4)


def crash_sweep(acc, w, build, texts, key):
    for text, r in tokseq.bulk(w, texts, fmt=True):
        acc.inc("evaluations")
        acc.inc(key)
        if "dead" in r:
            d = r["dead"]
            if "panic" in d:
                f, m = panic_sig(d["panic"])
                acc.violation({"oracle": "panic", "site": f, "msg": m}, {"text": text, "observed": d, "build": build})
            elif "crash" in d:
                acc.violation({"oracle": "crash", "signal": d["crash"].get("signal")},
                              {"text": text[:500], "observed": str(d)[:600], "build": build})
            else:
                acc.inconclusive.append({"text": text[:200], "why": str(d)[:200]})
            continue
        for k in ("fmt_panic", "rowan_panic"):
            if k in r:
                f, m = panic_sig(r[k])
                acc.violation({"oracle": "panic", "site": f, "msg": m},
                              {"text": text, "observed": r[k], "build": build})
        if "fmt_panic" not in r and "rowan_panic" not in r:
            acc.add("distinct", runner.h64(text))
            acc.inc("formatted_ok" if r["fmt"] == [1, 1, 1] else "diagnostic")


def fp_verdict(w, text, indent):
    """-> (kind, detail) ; kind in ok | declined | panic | rejects-own-output | not-a-fixed-point | inconclusive"""
    r = w.call({"op": "fmt", "code": text, "indent": indent, "passes": 3}, timeout=60)
    if "panic" in r:
        return "panic", r["panic"]
    if "passes" not in r:
        return "inconclusive", r
    p = r["passes"]
    if "err" in p[0]:
        return "declined", None
    if len(p) < 2 or "err" in p[1]:
        return "rejects-own-output", {"first": p[0].get("ok")}
    if p[0]["ok"] != p[1]["ok"]:
        return "not-a-fixed-point", {"first": p[0]["ok"], "second": p[1]["ok"],
                                     "converges_on_third_pass": len(p) > 2 and p[2].get("ok") == p[1]["ok"]}
    return "ok", None


def setting_history(acc, w, build, text):
    """the rendering under a setting must not depend on the setting the same text was formatted with just before
    (consecutive calls on one text, then the reverse order after another text went through the formatter)"""
    def one(ind):
        r = w.call({"op": "fmt", "code": text, "indent": ind, "passes": 1}, timeout=60)
        p = r.get("passes")
        return p[0].get("ok") if p and isinstance(p[0], dict) and "ok" in p[0] else None
    a2, a4 = one(2), one(4)
    w.call({"op": "fmt", "code": "1", "indent": 2, "passes": 1}, timeout=60)
    b4, b2 = one(4), one(2)
    if None in (a2, a4, b4, b2):
        return
    acc.inc("evaluations", 5)
    acc.inc("setting_history_cases")
    if a4 != b4 or a2 != b2:
        acc.violation({"oracle": "rendering-depends-on-previous-setting"},
                      {"text": text, "build": build, "indent4_after_indent2": a4, "indent4_after_other_text": b4,
                       "indent2_first": a2, "indent2_after_indent4": b2})


def reduce_failure(w, text, indent, kind):
    toks = [t[3] for t in w.call({"op": "lex", "code": text}).get("tokens", [])]
    if not toks or "".join(toks) != text:
        return text
    def fails(cand):
        t = "".join(cand)
        # stay inside the valid programs: the fixed-point property is about those only
        r = w.call({"op": "bulk", "texts": [t]}, timeout=60)
        if "res" not in r or not r["res"][0].get("ir"):
            return False
        return fp_verdict(w, t, indent)[0] == kind
    core = tokseq.ddmin(toks, fails, max_calls=2500)
    return "".join(core)


def _squash(t):
    return re.sub(r",(?=[)\]}])", "", re.sub(r"\s+", "", t))


def joined_on_second_pass(det):
    """the two passes lay a list / call / parameter list out differently (the first breaks it and the second joins it again:
    `[ 1000, 5 + 2\\n] then [`; or the first breaks it half-way and the second fully) and differ in nothing but white space.  The width test looks at the text up to the next line break of the
    *input*; the first pass changes where that is."""
    if not isinstance(det, dict) or "first" not in det or "second" not in det:
        return False
    first, second = det["first"], det["second"]
    # white space between tokens only: the evaluator's parser must read both outputs as the same program (so nothing
    # inside a string or text block changed) and no CR may have appeared or disappeared
    return bool(det.get("same_tree")) and first.count("\r") == second.count("\r") and _squash(first) == _squash(second)


GLUED_SPECS = re.compile(r"^\s*for [^\n]*?[A-Za-z0-9_](?:if|for) |^\s*for [^\n]*(?://|#)[^\n]*\b(?:if|for) ", re.M)


def features(core, det=None):
    """what the minimal failing program contains (decided on the reduced text)"""
    f = []
    if isinstance(det, dict) and GLUED_SPECS.search(det.get("first") or ""):
        # the specs of an object comprehension are printed without a separator (known finding of C19): `for k in xsif k`,
        # or a line comment after one spec swallowing the next
        return "object-comprehension-specs-glued"
    if re.search(r"(//|#)[^\n]*\n?[\s,]*[)\]}]", core):
        f.append("line-comment-before-closing-bracket")
    if re.search(r"[(\[{]\s*(/\*|//|#)", core):
        f.append("comment-after-opening-bracket")
    if re.search(r"/\*", core):
        f.append("block-comment")
    if re.search(r"(//|#)", core) and "line-comment-before-closing-bracket" not in f:
        f.append("line-comment")
    if not f and nested_statement(core):
        f.append("local-or-assert-statement-inside-brackets")
    if not f and joined_on_second_pass(det):
        f.append("passes-differ-in-line-breaks-only")
    if "|||" in core and not f:
        f.append("crlf-text-block" if "\r\n" in core else "text-block")
    if not f:
        f.append("no-comment")
    return "+".join(f)


def nested_statement(core):
    """is there a `local ...;` / `assert ...;` expression at bracket depth > 0 ?"""
    depth = 0
    for m in re.finditer(r"[(\[{]|[)\]}]|\b(?:local|assert)\b", re.sub(r"'[^']*'|\"[^\"]*\"", "''", core)):
        t = m.group(0)
        if t in "([{":
            depth += 1
        elif t in ")]}":
            depth -= 1
        elif depth > 0:
            return True
    return False


def fixed_point(acc, w, build, text, origin):
    for indent in INDENTS:
        acc.inc("evaluations")
        acc.inc("fixed_point_cases")
        kind, det = fp_verdict(w, text, indent)
        if kind == "ok":
            acc.inc("fixed_points")
            acc.add("distinct", runner.h64(text + str(indent)))
        elif kind == "declined":
            acc.inc("declined")
        elif kind == "inconclusive":
            acc.inconclusive.append({"text": text[:200], "why": str(det)[:200]})
        elif kind == "panic":
            f, m = panic_sig(det)
            acc.violation({"oracle": "panic", "site": f, "msg": m}, {"text": text, "indent": indent, "build": build})
        else:
            if origin == "supported-comment-position":
                acc.violation({"oracle": kind + "@supported-comment-position"}, {"text": text, "indent": indent, "build": build, "result": det})
                continue
            core = reduce_failure(w, text, indent, kind) if acc.n.get("reduced", 0) < 150 else text
            acc.inc("reduced")
            k2, d2 = fp_verdict(w, core, indent)
            dd = d2 if k2 == kind else det
            if kind == "not-a-fixed-point" and isinstance(dd, dict) and "second" in dd:
                pa = w.call({"op": "parse", "code": dd["first"]}, timeout=60)
                pb = w.call({"op": "parse", "code": dd["second"]}, timeout=60)
                ta, tb = (pa.get("ir") or {}).get("tree"), (pb.get("ir") or {}).get("tree")
                dd["same_tree"] = ta is not None and ta == tb
            sig = {"oracle": kind, "features": features(core, dd)}
            if isinstance(d2, dict) and "converges_on_third_pass" in d2:
                sig["converges_on_third_pass"] = d2["converges_on_third_pass"]
            acc.violation(sig,
                          {"text": text, "core": core, "indent": indent, "build": build,
                           "core_result": d2, "result": det})
    return


def shard(idx, n, tier, seed, builds, cli):
    acc = runner.Acc()
    rng = runner.rng_for(seed, "c20", idx)
    for build, binary in builds.items():
        w = runner.Worker(binary, timeout=120)
        try:
            maxlen = 4 if tier == "quick" else 5
            if build == "chk":
                maxlen = 3 if tier == "quick" else 4
            accepted = []
            texts = (" ".join(t) for t in tokseq.shard_exhaustive(maxlen, idx, n))
            # crash sweep + remember the accepted ones for the fixed-point check
            for text, r in tokseq.bulk(w, texts, fmt=True):
                acc.inc("evaluations")
                acc.inc("exhaustive_seqs")
                bad = False
                for k in ("fmt_panic", "rowan_panic"):
                    if k in r:
                        f, m = panic_sig(r[k])
                        acc.violation({"oracle": "panic", "site": f, "msg": m},
                                      {"text": text, "observed": r[k], "build": build})
                        bad = True
                if "dead" in r:
                    acc.violation({"oracle": "crash"}, {"text": text, "observed": str(r)[:500], "build": build})
                    bad = True
                if not bad:
                    acc.add("distinct", runner.h64(text))
                    if r.get("ir") and r.get("fmt") == [1, 1, 1]:
                        accepted.append(text)
            nr = (12000 if tier == "quick" else 200000) // n
            crash_sweep(acc, w, build, (" ".join(t) for t in tokseq.random_seqs(rng, nr, 5, 10)), "random_seqs")
            crash_sweep(acc, w, build, tokseq.mutants(rng, nr), "mutants")
            crash_sweep(acc, w, build, tokseq.hostile_texts(rng, nr), "hostile_texts")
            if build == "rel":
                for t in accepted:
                    fixed_point(acc, w, build, t, "token-seq")
                corpus = fmtlib.corpus() + fmtlib.wide_programs()
                mine = runner.chunks(corpus, idx, n)
                for t in fmtlib.generated(seed, idx, (4000 if tier == "quick" else 80000) // n):
                    fixed_point(acc, w, build, t, "generated")
                for t in mine:
                    fixed_point(acc, w, build, t, "corpus")
                    setting_history(acc, w, build, t)
                    if "\n" in t:
                        fixed_point(acc, w, build, t.replace("\n", "\r\n"), "corpus-crlf")
                    toks = w.call({"op": "lex", "code": t}).get("tokens", [])
                    for d, ncomments in fmtlib.decorate(t, toks, rng, 6 if tier == "quick" else 40):
                        fixed_point(acc, w, build, d, "decorated")
                for t in runner.chunks(fmtlib.supported_comment_programs(empty_brackets=False), idx, n):
                    fixed_point(acc, w, build, t, "supported-comment-position")
                    acc.inc("supported_comment_position_programs")
        finally:
            w.close()
    # CLI: jrsonnet-fmt then jrsonnet-fmt --test accepts what the tool printed
    if cli:
        corpus = runner.chunks(fmtlib.corpus(), idx, n)
        with tempfile.TemporaryDirectory(prefix="c20-") as td:
            for i, t in enumerate(corpus):
                for flags in ([], ["--indent", "4"], ["--hard-tabs"]):
                    src = os.path.join(td, "in%d.jsonnet" % i)
                    with open(src, "w") as f:
                        f.write(t)
                    p = subprocess.run([cli["jrsonnet-fmt"]] + flags + [src], capture_output=True, text=True, timeout=60)
                    acc.inc("evaluations")
                    acc.inc("cli_runs")
                    if p.returncode < 0 or "panicked" in p.stderr:
                        acc.violation({"oracle": "cli-crash", "flags": " ".join(flags)},
                                      {"text": t, "stderr": p.stderr[-500:], "rc": p.returncode})
                        continue
                    if p.returncode != 0:
                        acc.inc("cli_declined")
                        continue
                    out = os.path.join(td, "out%d.jsonnet" % i)
                    with open(out, "w") as f:
                        f.write(p.stdout)
                    q = subprocess.run([cli["jrsonnet-fmt"]] + flags + ["--test", out], capture_output=True, text=True, timeout=60)
                    if q.returncode != 0:
                        sig = {"oracle": "cli-test-rejects-own-output", "flags": " ".join(flags)}
                        if GLUED_SPECS.search(p.stdout):
                            sig = {"oracle": "rejects-own-output", "features": "object-comprehension-specs-glued"}
                        acc.violation(sig, {"text": t, "printed": p.stdout, "rc": q.returncode, "stderr": q.stderr[-300:]})
                    else:
                        acc.inc("cli_test_accepts")
    acc.sample({"text": "local a = 1 ; a", "indent": 2})
    return acc


def run(tier, seed, t0):
    builds = {"rel": runner.build("rel")["jv-worker"], "chk": runner.build("chk")["jv-worker"]}
    cli = runner.build_cli()
    accs = runner.shard_map(shard, (tier, seed, builds, cli))
    acc = runner.Acc()
    for a in accs:
        acc.merge(a)
    return runner.finish(
        PROP, tier, seed, "exploration", acc, t0,
        rule="crash-freedom: all token sequences up to length 4/5 (rel) and 3/4 (chk), random longer "
             "sequences, mutants of valid programs and hostile raw texts through format() with indent "
             "0/2/4; fixed point: every token sequence the formatter accepted, a corpus of %d valid "
             "programs, %d near-100-column programs and comment-decorated variants x 3 indents, three "
             "passes; CLI: jrsonnet-fmt then --test. distinct_nontrivial = distinct inputs that went "
             "through without a panic (crash part) or reached a fixed point (idempotence part)"
             % (len(fmtlib.corpus()), len(fmtlib.wide_programs())),
        assumptions=["a diagnostic (Err) on any input is acceptable"],
        min_events=10000)


def replay(path):
    w = json.load(open(path))["witness"]
    b = runner.build(w.get("build", "rel"))
    wk = runner.Worker(b["jv-worker"])
    print(json.dumps(wk.call({"op": "fmt", "code": w["text"], "indent": w.get("indent", 2), "passes": 3}), indent=1)[:3000])
    wk.close()
    return 0
