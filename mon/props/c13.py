"""C13 - standard-library object and type functions match their definitions.

Part A (objects): chains from the C02 generator, extended with member kinds whose values are
lazily failing (`error`), null, nested objects (with hidden members), empty containers.  Each
chain `o` (and a second chain `p` for the binary functions) is probed with every function the
property names; the reference is the object model + the documented std.jsonnet definitions in
mon/ref/interp.py, including their laziness (a probe that does not need a field's value must
not fail because that value fails).

Part B (JSON-like values): mergePatch / prune / equals / primitiveEquals / xor / xnor / type /
is* / length on nested JSON-like values with nulls and empties against the independent ports
in mon/ref/stdlib_ref.py.
"""
import itertools
import json

from .. import runner, sanit, stdcheck as SC
from ..common import outcome, strict_json, deep_equal, panic_sig
from ..gen import prog
from ..ref import interp, jast, stdlib_ref as R
from . import c01, c02

PROP = "C13"
N, S, V, STD = prog.N, prog.S, prog.V, prog.STD
NAMES = c02.NAMES
ABSENT = c02.ABSENT
NULL, TRUE, FALSE = ("lit", "null"), ("lit", "true"), ("lit", "false")

VALUE_KINDS = ["err", "hidden_err", "null", "hidden_null", "nested", "nested_err", "empty_obj", "empty_arr", "arr_nulls", "nested_plus"]
KINDS = ["absent", "plain", "plus", "hidden", "unhide", "self_other", "super_same", "local_backed"] + VALUE_KINDS


def fld(name, val, vis=":", plus=False):
    return ("field", ("fixed", name), plus, vis, None, val)


def obj(*members):
    return ("obj", list(members))


def member(kind, name, layer):
    if kind not in VALUE_KINDS:
        return c02.member(kind, name, layer)
    if kind == "err":
        return [fld(name, ("error", S("boom-%s%d" % (name, layer))))]
    if kind == "hidden_err":
        return [fld(name, ("error", S("hboom")), "::")]
    if kind == "null":
        return [fld(name, NULL)]
    if kind == "hidden_null":
        return [fld(name, NULL, "::")]
    if kind == "nested":
        return [fld(name, obj(fld("x", N(layer + 1)), fld("h", N(2), "::"), fld("e", obj()), fld("n", NULL)))]
    if kind == "nested_plus":
        return [fld(name, obj(fld("y", N(layer + 5)), fld("x", NULL), fld("h", N(7))), ":", True)]
    if kind == "nested_err":
        return [fld(name, obj(fld("x", ("error", S("deep"))), fld("y", N(1))))]
    if kind == "empty_obj":
        return [fld(name, obj())]
    if kind == "empty_arr":
        return [fld(name, ("arr", []))]
    if kind == "arr_nulls":
        return [fld(name, ("arr", [NULL, obj(), ("arr", [NULL]), N(0), obj(fld("k", NULL))]))]
    raise AssertionError(kind)


def layer_node(kinds, layer):
    ms = []
    for name, k in zip(NAMES, kinds):
        ms += member(k, name, layer)
    return ("obj", ms)


def chain(spec):
    """spec: [kinds per layer], style"""
    layers, style = spec
    nodes = [layer_node(k, i) for i, k in enumerate(layers)]
    return c02.compose(nodes, style, None)


def idx(e, name):
    return ("index", e, S(name), "dot")


def at(e, i):
    return ("index", e, N(i))


def fn(params, body):
    return ("fn", [(p, None) for p in params], body)


def unary_probes():
    o = V("o")
    names = NAMES + [ABSENT]
    P = []
    P.append(("fieldsEx", obj(
        fld("f", STD("objectFieldsEx", o, FALSE)), fld("fa", STD("objectFieldsEx", o, TRUE)),
        fld("f2", STD("objectFields", o)), fld("fa2", STD("objectFieldsAll", o)),
        fld("h", ("arr", [STD("objectHasEx", o, S(n), FALSE) for n in names])),
        fld("ha", ("arr", [STD("objectHasEx", o, S(n), TRUE) for n in names])),
        fld("h2", ("arr", [STD("objectHas", o, S(n)) for n in names])),
        fld("ha2", ("arr", [STD("objectHasAll", o, S(n)) for n in names])))))
    P.append(("valuesLengths", ("arr", [STD("length", STD(f, o)) for f in
                                        ("objectValues", "objectValuesAll", "objectKeysValues", "objectKeysValuesAll")])))
    for f in ("objectKeysValues", "objectKeysValuesAll"):
        P.append((f + ":keys", ("arrcomp", idx(V("kv"), "key"), [("for", "kv", STD(f, o))])))
        P.append((f + ":fieldsOfEntries", ("arrcomp", STD("objectFieldsAll", V("kv")), [("for", "kv", STD(f, o))])))
        P.append((f, STD(f, o)))
        for i in (0, 1):
            # indexing (not iterating) the key-value view: the entry's key does not need the field's value
            P.append(("%s:index%d-key" % (f, i), ("local", [("bind", "v", STD(f, o))],
                                                 ("if", ("bin", ">", STD("length", V("v")), N(i)), idx(at(V("v"), i), "key"), S("none")))))
    for f in ("objectValues", "objectValuesAll"):
        P.append((f, STD(f, o)))
        for i in (0, 1):
            P.append(("%s:elem%d" % (f, i), ("local", [("bind", "v", STD(f, o))],
                                            ("if", ("bin", ">", STD("length", V("v")), N(i)), at(V("v"), i), S("none")))))
    for n in names:
        P.append(("get:plain:" + n, STD("get", o, S(n))))
        P.append(("get:default:" + n, STD("get", o, S(n), S("dflt"))))
        P.append(("get:lazy-default:" + n, STD("get", o, S(n), ("error", S("default-evaluated")))))
        P.append(("get:visible-only:" + n, STD("get", o, S(n), S("dflt"), FALSE)))
        P.append(("get:named:" + n, ("apply", idx(V("std"), "get"), [o, S(n)], [("inc_hidden", FALSE)], False)))
        P.append(("get:hidden-true:" + n, STD("get", o, S(n), NULL, TRUE)))
        P.append(("removeKey:fields:" + n, ("arr", [STD("objectFields", STD("objectRemoveKey", o, S(n))),
                                                     STD("objectFieldsAll", STD("objectRemoveKey", o, S(n)))])))
        P.append(("removeKey:value:" + n, STD("objectRemoveKey", o, S(n))))
        # nothing can read a removed field any more: looking its name up must not evaluate it
        P.append(("removeKey:get:" + n, STD("get", STD("objectRemoveKey", o, S(n)), S(n), S("dflt"))))
        P.append(("removeKey:has:" + n, ("arr", [STD("objectHasAll", STD("objectRemoveKey", o, S(n)), S(n)),
                                                  ("bin", "in", S(n), STD("objectRemoveKey", o, S(n)))])))
        P.append(("removeKey:redefine:" + n, ("objext", STD("objectRemoveKey", o, S(n)), obj(fld(n, N(7))))))
        P.append(("removeKey:plus:" + n, idx(("objext", STD("objectRemoveKey", o, S(n)), ("obj", [("field", ("fixed", n), True, ":", None, ("arr", [N(7)]))])), n)))
    P.append(("mapWithKey:pairs", STD("mapWithKey", fn(["k", "v"], ("arr", [V("k"), V("v")])), o)))
    P.append(("mapWithKey:lazy-fn", STD("objectFields", STD("mapWithKey", fn(["k", "v"], ("error", S("called"))), o))))
    P.append(("mapWithKey:value-unused", STD("mapWithKey", fn(["k", "v"], ("bin", "+", V("k"), S("!"))), o)))
    P.append(("mapWithKey:all-fields", STD("objectFieldsAll", STD("mapWithKey", fn(["k", "v"], V("k")), o))))
    P.append(("mapWithKey:not-fn", STD("mapWithKey", S("nope"), o)))
    P.append(("prune", STD("prune", o)))
    P.append(("prune:fields", STD("objectFieldsAll", STD("prune", o))))
    P.append(("prune:in-array", STD("prune", ("arr", [o, NULL, ("arr", []), N(0), S("")]))))
    P.append(("types", ("arr", [STD("length", o), STD("type", o)] +
                        [STD(f, o) for f in ("isObject", "isArray", "isString", "isNumber", "isBoolean", "isFunction", "isNull")])))
    P.append(("equals:copy", ("arr", [("bin", "==", o, V("o2")), STD("equals", o, V("o2")), ("bin", "!=", o, V("o2"))])))
    P.append(("assertEqual:copy", STD("assertEqual", o, V("o2"))))
    P.append(("primitiveEquals:objects", STD("primitiveEquals", o, V("o2"))))
    P.append(("mergePatch:self-empty", STD("mergePatch", o, obj())))
    P.append(("mergePatch:onto-empty", STD("mergePatch", obj(), o)))
    P.append(("mergePatch:onto-empty:fields", STD("objectFieldsAll", STD("mergePatch", obj(), o))))
    P.append(("mergePatch:non-object-target", STD("mergePatch", N(3), o)))
    P.append(("mergePatch:non-object-patch", STD("mergePatch", o, ("arr", [NULL]))))
    P.append(("mergePatch:self-empty:fields", ("arr", [STD("objectFields", STD("mergePatch", o, obj())),
                                                         STD("objectFieldsAll", STD("mergePatch", o, obj()))])))
    return P


def binary_probes():
    o, p = V("o"), V("p")
    P = [("mergePatch", STD("mergePatch", o, p)),
         ("mergePatch:fields", ("arr", [STD("objectFields", STD("mergePatch", o, p)), STD("objectFieldsAll", STD("mergePatch", o, p))])),
         ("equals", ("arr", [("bin", "==", o, p), STD("equals", o, p), ("bin", "!=", o, p)])),
         ("assertEqual", STD("assertEqual", o, p))]
    for n in NAMES:
        P.append(("mergePatch:one-field:" + n, STD("get", STD("mergePatch", o, p), S(n), S("absent"))))
    # an object with a removed key composed with another chain, on either side: every name-set function must agree with the
    # object model (the removed key is invisible only to lookups that start above the removal, and only in the argument's layers)
    for n in NAMES:
        for tag, r in (("right", ("bin", "+", o, STD("objectRemoveKey", p, S(n)))), ("left", ("bin", "+", STD("objectRemoveKey", o, S(n)), p)),
                       ("twice", STD("objectRemoveKey", ("bin", "+", o, STD("objectRemoveKey", p, S(n))), S(n)))):
            P.append(("removeKey:%s:names:%s" % (tag, n), ("local", [("bind", "r", r)], ("arr", [
                STD("objectHas", V("r"), S(n)), STD("objectHasAll", V("r"), S(n)), STD("objectHasEx", V("r"), S(n), FALSE),
                STD("objectHasEx", V("r"), S(n), TRUE), ("bin", "in", S(n), V("r")), STD("objectFields", V("r")), STD("objectFieldsAll", V("r")),
                STD("length", V("r"))]))))
            P.append(("removeKey:%s:get:%s" % (tag, n), ("local", [("bind", "r", r)], STD("get", V("r"), S(n), S("dflt"), FALSE))))
            P.append(("removeKey:%s:get-all:%s" % (tag, n), ("local", [("bind", "r", r)], STD("get", V("r"), S(n), S("dflt")))))
    return P


UNARY = unary_probes()
BINARY = binary_probes()


def specs(tier, rng):
    """-> (unary chain specs, binary pair specs)"""
    un = []
    for k in itertools.product(KINDS, repeat=2):
        un.append(([k], "+"))
    n2, n3, nb = (900, 300, 1500) if tier == "quick" else (20000, 8000, 40000)
    for _ in range(n2):
        un.append(([tuple(rng.choice(KINDS) for _ in NAMES) for _ in range(2)], rng.choice(["+", "ext"])))
    for _ in range(n3):
        un.append(([tuple(rng.choice(KINDS) for _ in NAMES) for _ in range(3)], rng.choice(["+", "ext"])))
    bi = []
    # patches: single-layer objects over all kinds (exhaustive for name a) and random chains
    for ka in KINDS:
        for kb in KINDS:
            bi.append((([(ka, rng.choice(KINDS))], "+"), ([(kb, rng.choice(KINDS))], "+")))
    for _ in range(nb):
        mk = lambda: ([tuple(rng.choice(KINDS) for _ in NAMES) for _ in range(rng.choice([1, 1, 2]))], "+")
        bi.append((mk(), mk()))
    return un, bi


def run_probe(acc, w, binds, pname, probe, label, config):
    ast = ("local", binds, probe)
    it = interp.Interp()
    try:
        ref = it.run(ast)
    except (interp.Abstain, RecursionError):
        acc.inc("abstained")
        return None
    src = jast.to_source(ast)
    acc.inc("evaluations")
    got, _ = c01.observe(w, {"op": "eval", "code": src, "state_id": "s"})
    fam = pname.split(":")[0]
    extra = {"probe": pname if not pname.split(":")[-1] in NAMES + [ABSENT] else ":".join(pname.split(":")[:-1])}
    ok = c01.compare(acc, label, src, ref, got, dict(config, probe=pname), extra)
    if ok:
        acc.add("functions", fam)
        acc.inc("agree_" + ref[0])
    return ok


# ------------------------------------------------------------------ part B: JSON-like values
LEAVES = [None, True, False, 0.0, 1.0, -1.5, "", "a", [], {}]


def json_values(rng, count, depth=3):
    def gen(d):
        r = rng.random()
        if d <= 0 or r < 0.35:
            return rng.choice(LEAVES)
        if r < 0.6:
            return [gen(d - 1) for _ in range(rng.randrange(0, 4))]
        return {rng.choice(["a", "b", "c", "é", "𐀀", "￿", "A", "", "a b"]): gen(d - 1) for _ in range(rng.randrange(0, 4))}
    return [gen(depth) for _ in range(count)]


def json_cases(tier, rng):
    vals = list(LEAVES) + [[None], [[]], [{}], {"a": None}, {"a": {"b": None}}, {"a": [None]}, {"a": {}}, {"a": {"b": {}}},
                           {"a": [1.0, {"b": None}]}, [[None], [[], {}]], {"a": {"b": 1.0, "c": None}, "d": 2.0}]
    vals += json_values(rng, 250 if tier == "quick" else 4000)
    out = []
    for v in vals:
        out.append(("prune", [v]))
        out.append(("length", [v]))
        out.append(("equals", [v, v]))
        out.append(("primitiveEquals", [v, v]))
    pairs = [(rng.choice(vals), rng.choice(vals)) for _ in range(3000 if tier == "quick" else 60000)]
    pairs += list(itertools.product(vals[:21], repeat=2))
    for a, b in pairs:
        out.append(("mergePatch", [a, b]))
        out.append(("equals", [a, b]))
        out.append(("primitiveEquals", [a, b]))
    for a, b in itertools.product([True, False, None, 0.0, 1.0, "true", [], {}], repeat=2):
        out.append(("xor", [a, b]))
        out.append(("xnor", [a, b]))
    return out


def law_merge_patch(args, out):
    """RFC 7396 consequences checkable on the output alone"""
    target, patch = args

    def no_nulls_from_patch(p, o):
        if isinstance(p, dict):
            if not isinstance(o, dict):
                return "object patch gave non-object"
            for k, v in p.items():
                if v is None and k in o:
                    return "null member kept"
                if k in o and isinstance(v, dict):
                    r = no_nulls_from_patch(v, o[k])
                    if r:
                        return r
        return None
    if not isinstance(patch, dict):
        return None if deep_equal(out, SC.expected_json(patch)) else "non-object patch must replace"
    r = no_nulls_from_patch(patch, out)
    if r:
        return r
    if isinstance(out, dict) and list(out.keys()) != sorted(out.keys()):
        return "keys not ascending"
    return None


def shard(idx_, n, tier, seed, binary):
    acc = runner.Acc()
    rng = runner.rng_for(seed, "c13")
    w = runner.Worker(binary)
    try:
        un, bi = specs(tier, rng)
        for i, spec in enumerate(un):
            if i % n != idx_:
                continue
            ch = chain(spec)
            binds = [("bind", "o", ch), ("bind", "o2", ch)]
            allok = True
            for pname, probe in UNARY:
                r = run_probe(acc, w, binds, pname, probe, "unary:%d" % len(spec[0]), {"spec": repr(spec)})
                if r is False:
                    allok = False
            if allok:
                acc.distinct(repr(spec))
                for k in spec[0]:
                    for kind in k:
                        acc.add("member_kinds", kind)
        for i, (so, sp) in enumerate(bi):
            if i % n != idx_:
                continue
            binds = [("bind", "o", chain(so)), ("bind", "p", chain(sp))]
            allok = True
            for pname, probe in BINARY:
                r = run_probe(acc, w, binds, pname, probe, "binary", {"o": repr(so), "p": repr(sp)})
                if r is False:
                    allok = False
            if allok:
                acc.distinct(repr((so, sp)))
        rng2 = runner.rng_for(seed, "c13-json")
        for i, (fname, args) in enumerate(json_cases(tier, rng2)):
            if i % n != idx_:
                continue
            SC.check_call(acc, w, PROP, fname, args, law_merge_patch if fname == "mergePatch" else None)
        if idx_ == 0:
            acc.sample({"chain": jast.to_source(chain(([("nested", "hidden_err"), ("nested_plus", "unhide")], "+"))),
                        "probe": jast.to_source(UNARY[1][1])})
            acc.sample({"probe": jast.to_source(BINARY[0][1]), "o": jast.to_source(chain(([("nested", "err")], "+"))),
                        "p": jast.to_source(chain(([("nested_plus", "null")], "+")))})
    finally:
        w.close()
    return acc


def run(tier, seed, t0):
    bins = runner.build("rel")
    accs = runner.shard_map(shard, (tier, seed, bins["jv-worker"]))
    acc = runner.Acc()
    for a in accs:
        acc.merge(a)
    sanit.run_pass(acc, PROP, tier, seed, quick={"asan": 160}, thorough={"asan": 2400, "memcheck": 320, "miri": 128})
    return runner.finish(
        PROP, tier, seed, "exploration", acc, t0,
        rule="objects: every 1-layer chain over names {a,b} x %d member kinds (C02 kinds + lazily failing, hidden failing, "
             "null, hidden null, nested objects with hidden/null/empty members, nested +:, empty containers, arrays with "
             "nulls), random 2- and 3-layer chains composed by `+` / `base {..}`; each x %d unary probes (every function "
             "of the property incl. laziness probes: lengths of value arrays, single elements, get defaults that fail, "
             "mapWithKey with unused values) and random pairs x %d binary probes (mergePatch, one field of a merge, "
             "equality, assertEqual); JSON-like values of depth <= 3 with nulls / empties / non-BMP keys for mergePatch, "
             "prune, equals, primitiveEquals, xor, xnor, length against independent ports + RFC 7396 output laws. "
             "distinct_nontrivial = chains / pairs / calls on which every probe agreed" % (len(KINDS), len(UNARY), len(BINARY)),
        assumptions=["the documented std.jsonnet definitions are the reference (mergePatch / prune / get / mapWithKey / "
                     "objectValues / objectKeysValues as comprehensions over std.objectFields)",
                     "std.objectRemoveKey as in C02"],
        min_events=5000)


def replay(path):
    w = json.load(open(path))["witness"]
    wk = runner.Worker(runner.build("rel")["jv-worker"])
    code = w.get("source") or w.get("call")
    print(json.dumps({"source": code, "observed": wk.call({"op": "eval", "code": code}),
                      "expected": w.get("expected")}, indent=1, default=str)[:4000])
    wk.close()
    return 0
