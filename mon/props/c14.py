"""C14 - YAML, TOML, Python, XML and INI manifestation denote the same data.

Observed: the text produced by std.manifestYamlDoc / YamlStream / Toml / TomlEx / Python /
PythonVars / XmlJsonml / Ini for generated values under every option combination, and by the
CLI format constructors (yaml / toml / ini / xml-jsonml, yaml stream) through the library and
through the real executable for a sample.
Oracle: an independent reader of the format (PyYAML safe_load = YAML 1.1 resolver, tomllib,
ast.literal_eval, xml.etree, a line-based INI reader) must accept the text and return the value
the generator built: same keys, strings code point for code point, numbers equal, sequences in
order.  Values outside a format's domain must be rejected with an error.
"""
import ast
import json
import math
import os
import subprocess
import sys
import tomllib
import xml.etree.ElementTree as ET

try:
    import yaml
    try:
        from yaml import CSafeLoader as YLoader
    except ImportError:                                    # pragma: no cover
        from yaml import SafeLoader as YLoader
except ImportError:                                        # pragma: no cover
    yaml = None

from .. import runner
from ..common import jval, jstr, outcome, strict_json, panic_sig

PROP = "C14"

# ------------------------------------------------------------------ hostile strings
PUNCT = ['"', "'", "\\", "#", ":", "-", "=", "[", "]", "{", "}", ",", "&", "*", "!", "|", ">", "%", "@", "`", "?", " ", "~", "<", "/", ".", "_", "$"]
CONTROLS = ["\t", "\r", "a\rb", "\r\n", "\x01", "\x08", "\x0c", "\x1b", "\x1f", "\x7f", "\x85", "\xa0", "\u2028", "\u2029", "\ufeff", "\ufffd"]
NONASCII = ["é", "ß", "漢", "😀", "́", "𐀀"]
KEYWORDS = ["true", "false", "yes", "no", "on", "off", "y", "n", "null", "~", "True", "FALSE", "Yes", "NO", "On", "OFF", "Null", "NULL", "Y", "N",
            ".inf", "-.inf", ".Inf", ".nan", ".NaN", "+.inf", "nan", "inf", "<<", "=", "-", "---", "...", "!!str", "?", ": ", "- ", "# c", "[", "]", "{", "}", "|", ">"]
NUMLIKE = ["0", "1", "-1", "+1", "123", "1.5", "-1.5", "1e3", "1E3", "1e-3", "1.5e+3", "0x10", "0X1f", "-0x1", "0o7", "0o17", "017", "0b1", "0b101", "-0b1",
           "1_000", "1_0.5", ".5", "1.", "-.5", "+.5", "1e", "e1", "2001-01-01", "2001-1-1", "12-34-56", "2001-01-01T00:00:00Z", "12:30:00", "1:2", "-1:30",
           "190:20:30.15", "1__0", "_1", "1_", "0.", "0.0", "00", "0e0", "1e+", "0x", "0b", "0o", "-", "+", "--1", "1-1", "1/2", "a1", "1a", "0xg", "0b2", "1.2.3",
           "685_230.15", "6.8523015e+5", "-0", "+12e03", "4294967296", "0.1e1", ".1e-1", "12e03"]
PLAIN = ["", "a", "abc", "A_b-c.d/e", "with space", " lead", "trail ", "a: b", "a #b", "a:b", "#a", "a#", "-a", "- a", "a-", "?a", "a?", "@a", "`a", "%a", "!a", "&a", "*a",
         "|a", ">a", "'a'", "\"a\"", "a'b", "a\"b", "a\\b", "\\", "[a]", "{a}", "a,b", "a]", "key=val", "[sec]", "a;b", ";a", "a=b", "a = b"]


def hostile_strings(rng, n):
    base = list(dict.fromkeys(PLAIN + KEYWORDS + NUMLIKE + PUNCT + CONTROLS + NONASCII))
    out = list(base)
    pool = PUNCT + CONTROLS + NONASCII + ["a", "b", "1", "0", "e", "x", "_"]
    for _ in range(n):
        k = rng.random()
        if k < 0.5:
            out.append("".join(rng.choice(pool) for _ in range(rng.randrange(1, 6))))
        elif k < 0.7:
            out.append(rng.choice(KEYWORDS + NUMLIKE) + rng.choice(pool))
        elif k < 0.85:
            out.append(rng.choice(pool) + rng.choice(KEYWORDS + NUMLIKE))
        else:
            out.append(rng.choice(base) + rng.choice(base))
    return list(dict.fromkeys(out))


def block_safe_multiline(rng, n):
    """the block-scalar-safe class: >= 2 lines, every line non-empty and not starting with white space,
    only printable characters, at most one trailing newline"""
    chars = ["a", "b", " ", "#", ":", "-", "'", '"', "\\", "é", "漢", "😀", "|", ">", "[", "{", "%", "\t"]
    out = ["a\nb", "a\nb\n", "a\n", "line one\nline two\nline three", "# not a comment\n- not a list\nkey: value\n", "a: b\n", "---\nx", "'\n\"",
           "a \nb ", "a\tb\nc", "é\n漢\n😀\n"]
    for _ in range(n):
        lines = []
        for _ in range(rng.randrange(1, 4)):
            ln = "".join(rng.choice(chars) for _ in range(rng.randrange(1, 6)))
            if ln[0] in " \t":
                ln = "x" + ln
            lines.append(ln)
        s = "\n".join(lines)
        if rng.random() < 0.5 or len(lines) == 1:
            s += "\n"
        out.append(s)
    return list(dict.fromkeys(out))


NUMBERS = [0.0, 1.0, -1.0, 1.5, -2.25, 0.1, 1e-7, 123456789.0, 9007199254740992.0, -9007199254740991.0, 1e21, 1.7976931348623157e308, 5e-324, 0.30000000000000004, 100.0, 1e15, 1e16]


def gen_value(rng, strs, depth, allow_null=True, multi=None):
    r = rng.random()
    if depth <= 0 or r < 0.4:
        k = rng.random()
        if k < 0.5:
            return rng.choice(strs)
        if k < 0.6 and multi:
            return rng.choice(multi)
        if k < 0.8:
            return rng.choice(NUMBERS)
        if k < 0.9:
            return rng.choice([True, False])
        if allow_null and k < 0.95:
            return None
        return rng.choice([[], {}])
    if r < 0.7:
        return [gen_value(rng, strs, depth - 1, allow_null, multi) for _ in range(rng.randrange(0, 4))]
    return {rng.choice(strs): gen_value(rng, strs, depth - 1, allow_null, multi) for _ in range(rng.randrange(0, 4))}


def same(a, b):
    if isinstance(a, bool) or isinstance(b, bool) or a is None or b is None:
        return a is b
    if isinstance(a, (int, float)) and isinstance(b, (int, float)):
        return float(a) == float(b)
    if type(a) is not type(b):
        return False
    if isinstance(a, str):
        return a == b
    if isinstance(a, list):
        return len(a) == len(b) and all(same(x, y) for x, y in zip(a, b))
    if isinstance(a, dict):
        return set(a.keys()) == set(b.keys()) and all(same(a[k], b[k]) for k in a)
    return False


def first_diff(a, b, path="$"):
    """shortest description of where two values differ"""
    if same(a, b):
        return None
    if isinstance(a, dict) and isinstance(b, dict):
        for k in a:
            if k not in b:
                return ("%s: key missing" % path, k, None)
        for k in b:
            if k not in a:
                return ("%s: extra key" % path, None, k)
        for k in a:
            d = first_diff(a[k], b[k], path + "." + k[:10])
            if d:
                return d
    if isinstance(a, list) and isinstance(b, list) and len(a) == len(b):
        for i, (x, y) in enumerate(zip(a, b)):
            d = first_diff(x, y, "%s[%d]" % (path, i))
            if d:
                return d
    return (path, a, b)


def char_class(s):
    """coarse class of a string for violation signatures"""
    if not isinstance(s, str):
        return type(s).__name__
    if s == "":
        return "empty"
    cls = set()
    for c in s:
        o = ord(c)
        if c == "\x7f":
            cls.add("DEL")
        elif 0x80 <= o <= 0x9f:
            cls.add("C1")
        elif o < 0x20:
            cls.add("C0-" + {9: "tab", 10: "LF", 13: "CR"}.get(o, "other"))
        elif o in (0x2028, 0x2029):
            cls.add("LS/PS")
        elif o == 0xfeff:
            cls.add("BOM")
        elif o in (0xfffe, 0xffff):
            cls.add("noncharacter")
    if cls:
        return "+".join(sorted(cls))
    if s in KEYWORDS or s.lower() in [k.lower() for k in KEYWORDS]:
        return "keyword-lookalike"
    import re
    if re.match(r"^[-+.0-9][-+.0-9a-fA-FxXoObB_:eETZ]*$", s):
        return "number-lookalike"
    if s != s.strip():
        return "edge-whitespace"
    return "other"



def candidates(v):
    """simpler values of the same kind, most aggressive first"""
    if isinstance(v, dict):
        for k in v:
            if len(v) > 1:
                yield {k: v[k]}
        for k in v:
            if len(v) > 1:
                yield {a: b for a, b in v.items() if a != k}
        for k in v:
            for c in candidates(v[k]):
                yield {a: (c if a == k else b) for a, b in v.items()}
            for c in candidates(k):
                if c not in v:
                    yield {(c if a == k else a): b for a, b in v.items()}
    elif isinstance(v, list):
        for i in range(len(v)):
            if len(v) > 1:
                yield [v[i]]
        for i in range(len(v)):
            if isinstance(v[i], list) and i > 0:
                yield v[i]                      # hoist a nested element (JSONML child) to the top
        for i in range(len(v)):
            if len(v) > 1:
                yield v[:i] + v[i + 1:]
        for i in range(len(v)):
            for c in candidates(v[i]):
                yield v[:i] + [c] + v[i + 1:]
    elif isinstance(v, str):
        if len(v) > 1:
            for ch in dict.fromkeys(v):
                yield ch
            yield v[:len(v) // 2]
            yield v[len(v) // 2:]
            for i in range(len(v)):
                yield v[:i] + v[i + 1:]
        elif v not in ("a", ""):
            yield "a"
    elif isinstance(v, float) and v != 1.0:
        yield 1.0


IDENT_RE = None


def core_class(v, fmt=""):
    """classes of the strings left in a minimal failing value + its shape"""
    import re
    cls = []

    def walk(x, role):
        if isinstance(x, str):
            c = char_class(x)
            plain = re.match(r"^[A-Za-z_][A-Za-z0-9_]*$", x) or (fmt == "xml" and (x in XML_TAGS or x in XML_ATTRS)) \
                or (fmt == "ini" and x in ("main", "sections"))
            if c != "other" or not plain:
                cls.append(role + ":" + (c if c != "other" else repr(x)[:24]))
        elif isinstance(x, list):
            if not x:
                cls.append(role + ":[]")
            for y in x:
                walk(y, "elem" if role != "key" else role)
        elif isinstance(x, dict):
            if not x:
                cls.append(role + ":{}")
            for k, y in x.items():
                walk(k, "key")
                walk(y, "value")
        elif isinstance(x, float):
            if x != 1.0:
                cls.append(role + ":number")
        elif x is None or isinstance(x, bool):
            cls.append(role + ":" + str(x))
    walk(v, "root")
    return " ".join(sorted(set(cls))) or "plain"


# ------------------------------------------------------------------ independent readers
def read_yaml(text):
    return yaml.load(text, Loader=YLoader)


def read_yaml_all(text):
    return list(yaml.load_all(text, Loader=YLoader))


def read_python_vars(text):
    tree = ast.parse(text)
    out = {}
    for st in tree.body:
        if not isinstance(st, ast.Assign) or len(st.targets) != 1 or not isinstance(st.targets[0], ast.Name):
            raise ValueError("not a plain assignment")
        if st.targets[0].id in out:
            raise ValueError("duplicate variable")
        out[st.targets[0].id] = ast.literal_eval(st.value)
    return out


def read_ini(text):
    """line-based reader: `[section]` headers, `key = value` entries (split at the first `=`,
    both sides trimmed), repeated keys collect into lists, `;`/`#` comment lines, blank lines ignored"""
    main, sections, cur = {}, {}, None
    for line in text.split("\n"):
        if line.strip() == "" or line.lstrip()[0] in "#;":
            continue
        st = line.strip()
        if st.startswith("[") and st.endswith("]"):
            name = st[1:-1]
            if name in sections:
                raise ValueError("duplicate section")
            cur = sections[name] = {}
            continue
        if "=" not in line:
            raise ValueError("entry without =: %r" % line)
        k, v = line.split("=", 1)
        k, v = k.strip(), v.strip()
        tgt = main if cur is None else cur
        tgt.setdefault(k, []).append(v)
    return {"main": main, "sections": sections}


def read_xml(text):
    """-> JSONML-like tree [tag, attrs, children...] with adjacent text merged"""
    root = ET.fromstring(text)

    def conv(e):
        out = [e.tag, dict(e.attrib)]
        if e.text:
            out.append(e.text)
        for c in e:
            out.append(conv(c))
            if c.tail:
                out.append(c.tail)
        return out
    return conv(root)


def norm_jsonml(v):
    """expected tree of a JSONML value: attrs always present, adjacent / empty text merged"""
    if isinstance(v, str):
        return v
    tag = v[0]
    rest = v[1:]
    attrs = {}
    if rest and isinstance(rest[0], dict):
        attrs = {k: to_string(x) for k, x in rest[0].items()}
        rest = rest[1:]
    out = [tag, attrs]
    for c in rest:
        c = norm_jsonml(c)
        if isinstance(c, str):
            if c == "":
                continue
            if len(out) > 2 and isinstance(out[-1], str):
                out[-1] += c
                continue
        out.append(c)
    return out


def to_string(v):
    if isinstance(v, str):
        return v
    if v is True:
        return "true"
    if v is False:
        return "false"
    if v is None:
        return "null"
    if isinstance(v, float) and v == int(v) and abs(v) < 1e15:
        return str(int(v))
    return repr(v)


# ------------------------------------------------------------------ the check proper
class Ctx:
    def __init__(self, acc, w):
        self.acc, self.w = acc, w

    def text_of(self, code, manifest=None):
        """-> ("ok", text) | ("error", kind) | None (inconclusive / crash handled)"""
        job = {"op": "eval", "code": code, "state_id": "s"}
        if manifest:
            job["manifest"] = manifest
        self.acc.inc("evaluations")
        rec = self.w.call(job, timeout=30)
        cls, pay = outcome(rec)
        if cls == "ok":
            if manifest:
                return ("ok", pay)
            try:
                t = strict_json(pay)
            except Exception:
                return ("ok", None)
            return ("ok", t)
        if cls == "err":
            return ("error", pay["kind"])
        if cls in ("timeout", "harness"):
            self.acc.inconclusive.append({"code": code[:300], "why": cls})
            return None
        if cls == "crash" and runner.classify_crash(rec) == "resource":
            self.acc.inc("resource_class")
            return None
        p = panic_sig(pay) if cls == "panic" else ("crash", "")
        self.acc.violation({"oracle": "crash", "site": p[0], "msg": p[1]}, {"code": code[:2000], "observed": str(pay)[:500]})
        return None

    def attempt(self, tmpl, manifest, reader, expect, value, count=True):
        """-> (kind, detail) with kind in ok / rejected / not-well-formed / differs / none"""
        code = tmpl.replace("@V@", jval(value))
        if count:
            r = self.text_of(code, manifest)
        else:
            self.acc.inc("shrink_evaluations")
            job = {"op": "eval", "code": code, "state_id": "s"}
            if manifest:
                job["manifest"] = manifest
            cls, pay = outcome(self.w.call(job, timeout=30))
            if cls == "ok":
                try:
                    r = ("ok", pay if manifest else strict_json(pay))
                except Exception:
                    r = None
            elif cls == "err":
                r = ("error", pay["kind"])
            else:
                r = None
        if r is None:
            return "none", {}
        if r[0] == "error":
            return "rejected", {"code": code, "error": r[1]}
        text = r[1]
        if not isinstance(text, str):
            return "none", {}
        try:
            back = reader(text)
        except RecursionError:
            return "none", {}
        except Exception as e:
            return "not-well-formed", {"code": code, "text": text, "reader_error": str(e)[:300]}
        expected = expect(value)
        if same(back, expected):
            return "ok", {"code": code}
        return "differs", {"code": code, "text": text, "expected": expected, "read_back": back, "first_difference": list(first_diff(expected, back))}

    def roundtrip(self, fmt, variant, tmpl, manifest, reader, expect, value, family="", domain=None):
        if domain is not None and not domain(value):
            self.acc.inc("outside_domain_" + fmt)
            return
        kind, det = self.attempt(tmpl, manifest, reader, expect, value)
        if kind == "none":
            return
        if kind == "ok":
            self.acc.inc("roundtrips_" + fmt)
            self.acc.distinct(fmt + variant + det["code"])
            return
        # reduce to a minimal value of the domain that still fails in the same way
        core = value
        budget = [500]

        def fails(v):
            if budget[0] <= 0:
                return False
            if domain is not None and not domain(v):
                return False
            budget[0] -= 1
            return self.attempt(tmpl, manifest, reader, expect, v, count=False)[0] == kind
        progress = True
        while progress and budget[0] > 0:
            progress = False
            for cand in candidates(core):
                if fails(cand):
                    core = cand
                    progress = True
                    break
        k2, d2 = self.attempt(tmpl, manifest, reader, expect, core, count=False)
        if k2 != kind:
            core, d2 = value, det
        sig = {"oracle": {"rejected": "rejected-in-domain", "differs": "reads-back-differently"}.get(kind, kind), "format": fmt,
               "writer": family or variant, "class": core_class(core, fmt)}
        if kind == "rejected":
            sig["error"] = d2.get("error")
        if kind == "differs" and fmt.startswith("yaml") and not d2.get("text", "").endswith("\n"):
            fd = d2.get("first_difference") or [None, None, None]
            if isinstance(fd[1], str) and isinstance(fd[2], str) and fd[1] == fd[2] + "\n" and d2["text"].rstrip(" ").endswith(fd[2].split("\n")[-1]):
                sig["detail"] = "final-newline-of-block-scalar-ending-the-text"
        wit = {"variant": variant, "core": core, "core_literal": jval(core), "original_value": value}
        for k in ("code", "text", "reader_error", "expected", "read_back", "first_difference"):
            if k in d2:
                wit["core_" + k] = d2[k] if not isinstance(d2[k], str) else d2[k][:2000]
        self.acc.violation(sig, wit)

    def must_reject(self, fmt, code, manifest=None, what=""):
        r = self.text_of(code, manifest)
        if r is None:
            return
        if r[0] == "error":
            self.acc.inc("rejections_" + fmt)
            self.acc.distinct("reject" + fmt + code)
        else:
            self.acc.violation({"oracle": "accepted-outside-domain", "format": fmt, "what": what},
                               {"code": code[:2000], "text": str(r[1])[:1000]})


def block_safe(s):
    if "\n" not in s:
        return True
    body = s[:-1] if s.endswith("\n") else s
    return all(ln != "" and ln[0] not in " \t" and all(c == "\t" or (" " <= c and c not in "\x7f\x85\u2028\u2029\ufeff") for c in ln) and not ("\x80" <= ln[0] <= "\x9f")
               for ln in body.split("\n")) and "\r" not in s


def yaml_domain(v):
    if isinstance(v, str):
        return block_safe(v)
    if isinstance(v, list):
        return all(yaml_domain(x) for x in v)
    if isinstance(v, dict):
        return all(block_safe(k) and yaml_domain(x) for k, x in v.items())
    return True


def json_in_yaml11_domain(v):
    """JSON documents inside a YAML stream: JSON text may contain DEL / NEL / LS / PS raw, which only YAML 1.2 accepts"""
    bad = "\x7f\x85\u2028\u2029\ufeff\ufffe\uffff"
    if isinstance(v, str):
        return not any(c in bad or "\x80" <= c <= "\x9f" for c in v)
    if isinstance(v, list):
        return all(json_in_yaml11_domain(x) for x in v)
    if isinstance(v, dict):
        return all(json_in_yaml11_domain(k) and json_in_yaml11_domain(x) for k, x in v.items())
    return True


B = lambda b: "true" if b else "false"
ID = lambda v: v
TD = lambda v: isinstance(v, dict) and toml_domain(v)


def yaml_cases(ctx, rng, tier, strs, multi):
    n = 260 if tier == "quick" else 6000
    vals = [{s: s} for s in strs] + [[s] for s in strs] + strs + multi + [{"k": m} for m in multi] + [[m, {"x": m}] for m in multi[:10]] \
        + NUMBERS + [[NUMBERS], {"n": NUMBERS}, [], {}, [[]], [{}], {"a": []}, {"a": {}}, [[[]]], [[1.0, [2.0, [3.0]]]], {"a": {"b": {"c": [1.0, {"d": None}]}}},
                     [[{"a": [1.0]}]], {"a": [[1.0, 2.0], [3.0]]}, [{"a": 1.0, "b": [2.0]}, {"c": {}}], None, True, False]
    vals += [gen_value(rng, strs, 3, True, multi) for _ in range(n)]
    for i, v in enumerate(vals):
        lit = jval(v)
        # every option combination for each value would be 8x; rotate deterministically and do all of them on a subset
        combos = [(ia, qk) for ia in (False, True) for qk in (False, True)]
        todo = combos if (i % 4 == 0 or tier == "thorough") else [combos[i % 4]]
        for ia, qk in todo:
            ctx.roundtrip("yaml", "doc:iaio=%s,quote_keys=%s" % (ia, qk), "std.manifestYamlDoc(@V@, %s, %s)" % (B(ia), B(qk)),
                          None, read_yaml, ID, v, "std:quote_keys=%s" % qk, yaml_domain)
        if i % 3 == 0:
            ctx.roundtrip("yaml", "cli", "@V@", {"fmt": "yaml", "pad": [2, 4, 1][i % 3]}, read_yaml, ID, v, "cli", yaml_domain)
        else:
            ctx.roundtrip("yaml", "cli", "@V@", {"fmt": "yaml"}, read_yaml, ID, v, "cli", yaml_domain)
        if i % 5 == 0:
            ctx.roundtrip("yaml", "doc:defaults", "std.manifestYamlDoc(@V@)", None, read_yaml, ID, v, "std:quote_keys=True", yaml_domain)
    # streams
    ns = 150 if tier == "quick" else 3000
    for i in range(ns):
        docs = [rng.choice(vals) for _ in range(rng.randrange(0, 4))]
        lit = jval(docs)
        ia, cde, qk = rng.random() < 0.5, rng.random() < 0.5, rng.random() < 0.5
        ctx.roundtrip("yaml-stream", "std:c_document_end=%s" % cde,
                      "std.manifestYamlStream(@V@, %s, %s, %s)" % (B(ia), B(cde), B(qk)), None, read_yaml_all, ID, docs,
                      "std:quote_keys=%s" % qk, lambda v: isinstance(v, list) and yaml_domain(v))
        if i % 3 == 0:
            ctx.roundtrip("yaml-stream", "cli", "@V@", {"fmt": "yaml", "ystream": True}, read_yaml_all, ID, docs, "cli", lambda v: isinstance(v, list) and yaml_domain(v))
            if json_in_yaml11_domain(docs):
                ctx.roundtrip("yaml-stream", "cli-json", "@V@", {"fmt": "json", "ystream": True}, read_yaml_all, ID, docs, "cli-json",
                              lambda v: isinstance(v, list) and json_in_yaml11_domain(v))
    ctx.must_reject("yaml", "std.manifestYamlDoc({a: function(x) x})", what="function")
    ctx.must_reject("yaml", "std.manifestYamlDoc([function(x) x])", what="function")
    ctx.must_reject("yaml", "function(x) x", {"fmt": "yaml"}, what="function")
    ctx.must_reject("yaml-stream", "std.manifestYamlStream({a: 1})", what="non-array stream")
    ctx.must_reject("yaml-stream", "{a: 1}", {"fmt": "yaml", "ystream": True}, what="non-array stream")


def toml_domain(v):
    """no nulls anywhere"""
    if v is None:
        return False
    if isinstance(v, list):
        return all(toml_domain(x) for x in v)
    if isinstance(v, dict):
        return all(toml_domain(x) for x in v.values())
    return True


def toml_cases(ctx, rng, tier, strs, multi):
    n = 300 if tier == "quick" else 6000
    lines = [s for s in strs + multi]
    vals = [{s: s} for s in lines] + [{"k": [s]} for s in lines] + [{s: {s: 1.0}} for s in strs] + [{s: [{s: 1.0}]} for s in strs[::3]] + [
        {}, {"a": {}}, {"a": []}, {"a": [[]]}, {"a": [{}]}, {"a": [{}, {}]}, {"a": {"b": {}}}, {"a": {"b": {"c": 1.0}}}, {"a": 1.0, "b": {"c": 2.0}, "d": [{"e": 3.0}, {"e": 4.0, "f": {"g": 5.0}}]},
        {"a": [{"b": [{"c": 1.0}, {"c": 2.0}]}, {"b": []}]}, {"a": [1.0, "s", True, [2.0], {"k": "v"}]}, {"a": [{"x": 1.0}, 2.0]}, {"a": [[{"x": 1.0}]]},
        {"a": {"b": [{"c": {"d": [{"e": 1.0}]}}]}}, {"n": NUMBERS}, {"a": {"x": {"k": 1.0}, "y": 2.0}, "b": {"x": {"k": 1.0}}}, {"a.b": {"c.d": 1.0}}, {"a": {"": 1.0}}, {"": {"": {"": 1.0}}},
        {"a": [{"b": {"c": 1.0}}, {"b": {"c": 2.0}}]}, {"t": True, "f": False}, {"z": 1.0, "a": {"z": 1.0, "a": {"k": 1.0}}, "m": [{"z": 1.0}]}]
    for _ in range(n):
        v = gen_value(rng, strs, 3, False, multi)
        if not isinstance(v, dict):
            v = {rng.choice(strs): v}
        vals.append(v)
    for i, v in enumerate(vals):
        if not toml_domain(v):
            continue
        lit = jval(v)
        ctx.roundtrip("toml", "std", "std.manifestToml(@V@)", None, tomllib.loads, ID, v, "any", TD)
        if i % 2 == 0:
            ind = ["", " ", "    ", "\t"][i // 2 % 4]
            ctx.roundtrip("toml", "ex:indent=%r" % ind, "std.manifestTomlEx(@V@, %s)" % jstr(ind), None, tomllib.loads, ID, v, "any", TD)
        if i % 2 == 1:
            ctx.roundtrip("toml", "cli", "@V@", {"fmt": "toml", "pad": [2, 0, 4][i % 3]}, tomllib.loads, ID, v, "any", TD)
    for bad, what in (("{a: null}", "null"), ("{a: [null]}", "null"), ("{a: {b: null}}", "null"), ("{a: [{b: null}]}", "null"), ("{a: function(x) x}", "function"),
                      ("{a: [function(x) x]}", "function"), ("[1]", "non-object root"), ("1", "non-object root"), ("null", "non-object root"), ("'s'", "non-object root"),
                      ("{a: {b: [1, null]}}", "null"), ("{a: [[null]]}", "null")):
        ctx.must_reject("toml", "std.manifestToml(%s)" % bad, what=what)
        ctx.must_reject("toml", "std.manifestTomlEx(%s, '  ')" % bad, what=what)
        ctx.must_reject("toml", bad, {"fmt": "toml"}, what=what)


def python_cases(ctx, rng, tier, strs, multi):
    n = 300 if tier == "quick" else 6000
    vals = strs + multi + [{s: s} for s in strs] + NUMBERS + [None, True, False, [], {}, [[]], [{}], {"a": [None, True, 1.5, "x", {"b": []}]}]
    vals += [gen_value(rng, strs, 3, True, multi) for _ in range(n)]
    for v in vals:
        ctx.roundtrip("python", "manifestPython", "std.manifestPython(@V@)", None, ast.literal_eval, ID, v, "manifestPython")
    idents = ["a", "b1", "_x", "CamelCase", "snake_case", "é", "x" * 30, "__dunder__"]
    for i in range(n // 3 + 10):
        v = {rng.choice(idents): gen_value(rng, strs, 2, True, multi) for _ in range(rng.randrange(0, 4))}
        ctx.roundtrip("python", "manifestPythonVars", "std.manifestPythonVars(@V@)", None, read_python_vars, ID, v, "manifestPythonVars",
                      lambda v: isinstance(v, dict) and all(k in idents for k in v))
    for bad in ("function(x) x", "[function(x) x]", "{a: function(x) x}"):
        ctx.must_reject("python", "std.manifestPython(%s)" % bad, what="function")
    ctx.must_reject("python", "std.manifestPythonVars({a: function(x) x})", what="function")
    for bad in ("[1]", "1", "'s'", "null"):
        ctx.must_reject("python", "std.manifestPythonVars(%s)" % bad, what="non-object root")


XML_TAGS = ["a", "b", "tag", "x-y", "_u", "é", "a1", "a.b"]
XML_ATTRS = ["k", "id", "data-x", "é", "_a", "a.b"]


def xml_safe(s):
    """characters XML 1.0 allows in documents at all"""
    return all((ord(c) >= 0x20 or c in "\t\n\r") and ord(c) not in (0xfffe, 0xffff) for c in s)


def xml_domain(v):
    if not isinstance(v, list) or not v or v[0] not in XML_TAGS:
        return False
    rest = v[1:]
    if rest and isinstance(rest[0], dict):
        for k, x in rest[0].items():
            if k not in XML_ATTRS:
                return False
            if isinstance(x, str):
                if not xml_safe(x):
                    return False
            elif isinstance(x, (list, dict)):
                return False
        rest = rest[1:]
    for c in rest:
        if isinstance(c, str):
            if not xml_safe(c):
                return False
        elif not xml_domain(c):
            return False
    return True


def xml_cases(ctx, rng, tier, strs, multi):
    n = 500 if tier == "quick" else 10000
    texts = [s for s in strs + multi if xml_safe(s)]

    def gen(d):
        v = [rng.choice(XML_TAGS)]
        if rng.random() < 0.6:
            attrs = {}
            for _ in range(rng.randrange(0, 3)):
                k = rng.random()
                attrs[rng.choice(XML_ATTRS)] = rng.choice(texts) if k < 0.8 else rng.choice([1.0, 2.5, True, False, None, -3.0])
            v.append(attrs)
        for _ in range(rng.randrange(0, 4)):
            if d > 0 and rng.random() < 0.4:
                v.append(gen(d - 1))
            else:
                v.append(rng.choice(texts))
        return v
    vals = [["a", t] for t in texts] + [["a", {"k": t}] for t in texts] + [["a"], ["a", {}], ["a", {}, "x"], ["a", "x", "y"], ["a", ["b"], ["b"]], ["a", "x", ["b", "y"], "z"],
                                                                               ["a", {"k": "v"}, ["b", {"k2": "v2"}, "t"]], ["a", "", ["b", ""], ""], ["a", ["b", ["c", ["d"]]]]]
    vals += [gen(3) for _ in range(n)]
    for i, v in enumerate(vals):
        exp = norm_jsonml(v)
        ctx.roundtrip("xml", "std", "std.manifestXmlJsonml(@V@)", None, read_xml, norm_jsonml, v, "any", xml_domain)
        if i % 3 == 0:
            ctx.roundtrip("xml", "cli", "@V@", {"fmt": "xml"}, read_xml, norm_jsonml, v, "any", xml_domain)
    for bad, what in (("[]", "empty array"), ("[1]", "non-string tag"), ("['a', 1]", "number child"), ("{a: 1}", "object"), ("1", "number"), ("null", "null"),
                      ("['a', {}, 1]", "number child"), ("['a', ['b', 1]]", "nested number child"), ("['a', null]", "null child"), ("['a', true]", "boolean child"),
                      ("['a', {}, {}]", "second attribute object"), ("[['a']]", "array tag"), ("['a', function(x) x]", "function child"),
                      ("['a', {k: function(x) x}]", "function attribute")):
        ctx.must_reject("xml", "std.manifestXmlJsonml(%s)" % bad, what=what)
        ctx.must_reject("xml", bad, {"fmt": "xml"}, what=what)


LINEBREAKS = "\n\r\x0b\x0c\x1c\x1d\x1e\x85\u2028\u2029"


def ini_ok_key(s):
    return s != "" and s == s.strip() and "=" not in s and not any(c in s for c in LINEBREAKS) and s[0] not in "[#;"


def ini_ok_section(s):
    return s == s.strip() and "]" not in s and not any(c in s for c in LINEBREAKS)


def ini_ok_value(s):
    return s == s.strip() and not any(c in s for c in LINEBREAKS)


def ini_body_ok(b):
    if not isinstance(b, dict):
        return False
    for k, v in b.items():
        if not ini_ok_key(k):
            return False
        vs = v if isinstance(v, list) else [v]
        if not vs:
            return False
        for x in vs:
            if isinstance(x, str):
                if not ini_ok_value(x):
                    return False
            elif isinstance(x, (list, dict)):
                return False
    return True


def ini_domain(d):
    if not isinstance(d, dict) or not set(d) <= {"main", "sections"} or not isinstance(d.get("sections"), dict):
        return False
    if "main" in d and not ini_body_ok(d["main"]):
        return False
    return all(s != "" and ini_ok_section(s) and ini_body_ok(b) for s, b in d["sections"].items())


def ini_expect(d):
    def expect(b):
        return {k: ([to_string(x) for x in v] if isinstance(v, list) else [to_string(v)]) for k, v in b.items()}
    return {"main": expect(d.get("main", {})), "sections": {s: expect(b) for s, b in d["sections"].items()}}


def ini_cases(ctx, rng, tier, strs, multi):
    n = 400 if tier == "quick" else 8000
    keys = [s for s in strs if ini_ok_key(s)]
    secs = [s for s in strs if ini_ok_section(s) and s != ""]
    vals = [s for s in strs if ini_ok_value(s)]

    def body():
        out = {}
        for _ in range(rng.randrange(0, 4)):
            k = rng.random()
            if k < 0.6:
                out[rng.choice(keys)] = rng.choice(vals)
            elif k < 0.8:
                out[rng.choice(keys)] = [rng.choice(vals) for _ in range(rng.randrange(1, 4))]
            else:
                out[rng.choice(keys)] = rng.choice([1.0, -2.5, True, False, None, 1234567.0])
        return out

    def expect(b):
        return {k: ([to_string(x) for x in v] if isinstance(v, list) else [to_string(v)]) for k, v in b.items()}
    docs = [{"main": {k: v}, "sections": {}} for k in keys[:80] for v in (rng.choice(vals),)] + [{"sections": {s: {"k": "v"}}} for s in secs] \
        + [{"sections": {"s": {"k": v}}} for v in vals] + [{"sections": {}}, {"main": {}, "sections": {}}, {"sections": {"a": {}, "b": {}}},
                                                            {"main": {"k": ["1", "2", "3"]}, "sections": {"s": {"k": ["x"]}}}]
    for _ in range(n):
        d = {"sections": {rng.choice(secs): body() for _ in range(rng.randrange(0, 3))}}
        if rng.random() < 0.6:
            d["main"] = body()
        docs.append(d)
    for i, d in enumerate(docs):
        exp = {"main": expect(d.get("main", {})), "sections": {s: expect(b) for s, b in d["sections"].items()}}
        ctx.roundtrip("ini", "std", "std.manifestIni(@V@)", None, read_ini, ini_expect, d, "any", ini_domain)
        if i % 3 == 0:
            ctx.roundtrip("ini", "cli", "@V@", {"fmt": "ini"}, read_ini, ini_expect, d, "any", ini_domain)
    for bad, what in (("1", "non-object"), ("[]", "non-object"), ("{}", "missing sections"), ("{main: {}}", "missing sections"), ("{sections: 1}", "sections not object"),
                      ("{sections: {a: 1}}", "section not object"), ("{main: 1, sections: {}}", "main not object"), ("{sections: {a: {k: function(x) x}}}", "function"),
                      ("{main: {k: function(x) x}, sections: {}}", "function"), ("{main: {k: [function(x) x]}, sections: {}}", "function")):
        ctx.must_reject("ini", "std.manifestIni(%s)" % bad, what=what)
        ctx.must_reject("ini", bad, {"fmt": "ini"}, what=what)


PARTS = {"yaml": yaml_cases, "toml": toml_cases, "python": python_cases, "xml": xml_cases, "ini": ini_cases}


def shard(idx, n, tier, seed, binary, cli):
    acc = runner.Acc()
    w = runner.Worker(binary, timeout=30)
    ctx = Ctx(acc, w)
    try:
        # every shard runs every format on its own random stream (the deterministic parts are
        # repeated across shards only through the `distinct` set, which de-duplicates them)
        rng = runner.rng_for(seed, "c14", idx)
        strs = hostile_strings(rng, 60 if tier == "quick" else 400)
        multi = block_safe_multiline(rng, 15 if tier == "quick" else 100)
        if idx != 0:
            # deterministic base cases once (shard 0); other shards use only generated strings + a base sample
            base = strs[:]
            rng.shuffle(base)
            strs = base[:80] + strs[-(60 if tier == "quick" else 400):]
        for name, fn in PARTS.items():
            fn(ctx, rng, tier, strs, multi)
        if idx == 0:
            cli_sample(ctx, cli, rng, strs)
            acc.sample({"value": {"yes": "no", "1e3": ["0x10", "a: b", "\x7f"]}, "formats": list(PARTS)})
            acc.sample({"multi_line_class_example": "# not a comment\n- not a list\nkey: value\n"})
    finally:
        w.close()
    return acc


def cli_sample(ctx, cli, rng, strs):
    """the same writers through the real executable (-f / -y / --line-padding plumbing)"""
    vals = [{"a": [1.0, "x", {"b": "yes"}], "c d": "1e3", "e": {"f": "é"}}, {rng.choice(strs): rng.choice(strs)}, {"k": [rng.choice(strs) for _ in range(3)]}]
    for v in vals:
        for args, reader, fmt in ((["-f", "yaml"], read_yaml, "yaml"), (["-f", "toml"], tomllib.loads, "toml"), (["-f", "yaml", "--line-padding", "4"], read_yaml, "yaml")):
            if fmt == "toml" and not toml_domain(v):
                continue
            ctx.acc.inc("evaluations")
            p = subprocess.run([cli] + args + ["-e", jval(v)], capture_output=True, timeout=30)
            if p.returncode != 0:
                ctx.acc.violation({"oracle": "rejected-in-domain", "format": fmt, "variant": "executable"}, {"value": v, "stderr": p.stderr.decode("utf-8", "replace")[:500]})
                continue
            text = p.stdout.decode("utf-8")
            try:
                back = reader(text)
            except Exception as e:
                ctx.acc.violation({"oracle": "not-well-formed", "format": fmt, "variant": "executable", "class": ctx.blame(fmt, v, reader, "")},
                                  {"value": v, "text": text[:2000], "reader_error": str(e)[:300]})
                continue
            if same(back, v):
                ctx.acc.inc("roundtrips_executable")
                ctx.acc.distinct("exe" + fmt + jval(v) + " ".join(args))
            else:
                d = first_diff(v, back)
                ctx.acc.violation({"oracle": "reads-back-differently", "format": fmt, "variant": "executable",
                                   "class": char_class(d[1]) if isinstance(d[1], str) else type(d[1]).__name__},
                                  {"value": v, "text": text[:2000], "read_back": back})
    docs = [{"a": 1.0}, ["x", "yes"], "s"]
    ctx.acc.inc("evaluations")
    p = subprocess.run([cli, "-y", "-e", jval(docs)], capture_output=True, timeout=30)
    if p.returncode == 0 and same(read_yaml_all(p.stdout.decode()), docs):
        ctx.acc.inc("roundtrips_executable")
    else:
        ctx.acc.violation({"oracle": "reads-back-differently", "format": "yaml-stream", "variant": "executable"}, {"stdout": p.stdout.decode()[:500], "stderr": p.stderr.decode()[:500]})
    x = ["a", {"k": "v<&\""}, "t<", ["b"]]
    ctx.acc.inc("evaluations")
    p = subprocess.run([cli, "-f", "xml-jsonml", "-e", jval(x)], capture_output=True, timeout=30)
    if p.returncode == 0 and same(read_xml(p.stdout.decode()), norm_jsonml(x)):
        ctx.acc.inc("roundtrips_executable")
    else:
        ctx.acc.violation({"oracle": "reads-back-differently", "format": "xml", "variant": "executable"}, {"stdout": p.stdout.decode()[:500], "stderr": p.stderr.decode()[:500]})
    d = {"main": {"k": "v"}, "sections": {"s": {"a": ["1", "2"]}}}
    ctx.acc.inc("evaluations")
    p = subprocess.run([cli, "-f", "ini", "-e", jval(d)], capture_output=True, timeout=30)
    if p.returncode == 0 and same(read_ini(p.stdout.decode()), {"main": {"k": ["v"]}, "sections": {"s": {"a": ["1", "2"]}}}):
        ctx.acc.inc("roundtrips_executable")
    else:
        ctx.acc.violation({"oracle": "reads-back-differently", "format": "ini", "variant": "executable"}, {"stdout": p.stdout.decode()[:500], "stderr": p.stderr.decode()[:500]})


def run(tier, seed, t0):
    if yaml is None:
        # PyYAML is installed for the system interpreters of this image; re-run under one that has it
        for cand in ("/usr/bin/python3", "/root/.pyenv/shims/python3"):
            if os.path.exists(cand) and os.path.realpath(cand) != os.path.realpath(sys.executable):
                if subprocess.run([cand, "-c", "import yaml, tomllib"], capture_output=True).returncode == 0:
                    os.execv(cand, [cand] + sys.argv)
        print("C14: INCONCLUSIVE - no interpreter with PyYAML found; nothing was checked")
        return 2
    bins = runner.build("rel")
    cli = runner.build_cli()["jrsonnet"]
    accs = runner.shard_map(shard, (tier, seed, bins["jv-worker"], cli))
    acc = runner.Acc()
    for a in accs:
        acc.merge(a)
    return runner.finish(
        PROP, tier, seed, "exploration", acc, t0,
        rule="JSON-like values of depth <= 3 whose keys and strings come from a format-hostile alphabet (quotes, backslash, # : - = [ ] { } , & * ! | > % @ ` ?, "
             "edge white space, tab, C0 controls, U+007F, C1 / NEL, LS/PS, BOM, non-ASCII and astral, empty string, YAML 1.1 keywords in several cases, "
             "number / date / sexagesimal / radix look-alikes) and multi-line strings of the block-scalar-safe class, written by every std.manifest* function of the "
             "property under every option combination (indent_array_in_object, quote_keys, c_document_end, indent) and by the CLI format constructors (also through "
             "the executable for a sample), read back by PyYAML safe_load (YAML 1.1), tomllib, ast.literal_eval, xml.etree and a line-based INI reader; plus values "
             "outside each domain that must be rejected. distinct_nontrivial = distinct (format, variant, value) whose text was accepted and read back as the same data",
        assumptions=["PyYAML's YAML 1.1 resolver is the YAML reader (the strictest common one for keyword / number look-alikes)",
                     "block-scalar-safe class: every line non-empty and not starting with white space, printable, at most one trailing newline",
                     "INI domain: keys / values without '=' (keys), line breaks, edge white space; a key not starting with [ # ;; section names without ]",
                     "XML domain: tag / attribute names from a fixed set of valid names, character data restricted to characters XML 1.0 allows",
                     "PythonVars domain: keys that are Python identifiers"],
        min_events=5000)


def replay(path):
    w = json.load(open(path))["witness"]
    print(json.dumps(w, indent=1, default=str, ensure_ascii=False)[:5000])
    return 0
