"""C05 - JSON manifestation is well-formed and faithful.

Observed: output text of every JSON-producing path for each value: library formats
(default 4-space, CLI-style padding 3, minified), std.manifestJson, std.manifestJsonEx with
several whitespace indents / newline / separator arguments, std.manifestJsonMinified,
std.toString, "" + v, v + ""; and std.parseJson of those texts, re-manifested; CLI stdout
for a sample.  Oracle: Python's strict JSON reader (rejects NaN/Infinity, duplicate keys)
must accept the text and return exactly the value the generator built.
"""
import json
import math
import re
import subprocess

from .. import runner, sanit
from ..common import jval, jstr, jnum, outcome, strict_json, bits, panic_sig

PROP = "C05"

EX_VARIANTS = [('""', None, None), ('" "', None, None), ('"\\t"', None, None), ('" \\t "', None, None),
               ('"        "', None, None), ('"  "', '"\\r\\n"', None), ('"  "', '""', '":"'), ('""', '""', '" : "'),
               ('"\\t"', '"\\n\\n"', '":\\t"')]


# ----------------------------------------------------------------- value comparison
def same_value(a, b):
    """structure, strings code point for code point, numbers bit-for-bit (incl. -0)"""
    if isinstance(a, bool) or isinstance(b, bool) or a is None or b is None:
        return a is b
    if isinstance(a, float) and isinstance(b, float):
        return bits(a) == bits(b)
    if type(a) is not type(b):
        return False
    if isinstance(a, str):
        return a == b
    if isinstance(a, list):
        return len(a) == len(b) and all(same_value(x, y) for x, y in zip(a, b))
    if isinstance(a, dict):
        return list(a.keys()) == list(b.keys()) and all(same_value(a[k], b[k]) for k in a)
    return False


def depth_of(v):
    d = 0
    while isinstance(v, (list, dict)) and len(v) == 1:
        v = v[0] if isinstance(v, list) else next(iter(v.values()))
        d += 1
    return d + (1 if isinstance(v, (list, dict)) else 0)


def expected_of(v):
    """what a faithful JSON text must read back as: keys ascending, numbers as doubles"""
    if isinstance(v, bool) or v is None or isinstance(v, str):
        return v
    if isinstance(v, (int, float)):
        return float(v)
    if isinstance(v, list):
        return [expected_of(x) for x in v]
    return {k: expected_of(v[k]) for k in sorted(v)}


# ----------------------------------------------------------------- value generators
def all_scalars(tier):
    """strings covering Unicode scalar values"""
    out = []
    if tier == "thorough":
        cps = [c for c in range(0, 0x110000) if not (0xD800 <= c <= 0xDFFF)]
    else:
        cps = list(range(0, 0x800)) + [0x2028, 0x2029, 0xFEFF, 0xFFFD, 0xFFFE, 0xFFFF, 0xD7FF, 0xE000,
                                        0x10000, 0x1F600, 0x10FFFF, 0x3000, 0x200B, 0x202E]
    for i in range(0, len(cps), 512):
        out.append("".join(chr(c) for c in cps[i:i + 512]))
    out += ["", "\"", "\\", "\\\"", "\x7f", "  ", "a\x00b", "\t\n\r\b\f", "/", "</script>", "\\u0041", "é" * 300]
    return out


def doubles():
    D = [0.0, -0.0, 5e-324, -5e-324, 2.2250738585072014e-308, 1.7976931348623157e308, -1.7976931348623157e308,
         0.1, 0.2, 0.30000000000000004, 1 / 3, 2 / 3, 1e21, 1e22, 1e-7, 1e-6, 123456789012345680.0, 0.5, 1.5, -2.5]
    for e in range(-1074, 1024, 13):
        D.append(math.ldexp(1.0, e))
        D.append(-math.ldexp(1.5, max(e, -1022)))
    for e in range(-320, 309, 7):
        try:
            x = float("1e%d" % e)
            D += [x, math.nextafter(x, math.inf), math.nextafter(x, -math.inf), -x * 7]
        except OverflowError:
            pass
    for k in (-2, -1, 0, 1, 2):
        D += [2.0 ** 53 + k, -(2.0 ** 53) + k, 2.0 ** 63 + k * 2048, 2.0 ** 31 + k, 1e15 + k, 1e16 + 2 * k]
    return [x for x in D if math.isfinite(x)]


def structures(rng, count):
    keys = ["a", "b", "", " ", "é", "Z", "aa", "a b", "\"q", "\\", "0", "10", "9", "_", " ", "😀", "A", "z"]
    leaves = [None, True, False, 0.0, -0.0, 1.0, -1.5, 1e100, "", "s", "é\"\\\n", [], {}]

    def gen(d):
        k = rng.random()
        if d <= 0 or k < 0.35:
            return rng.choice(leaves)
        if k < 0.65:
            return [gen(d - 1) for _ in range(rng.randrange(0, 5))]
        return {kk: gen(d - 1) for kk in rng.sample(keys, rng.randrange(0, 6))}
    out = [gen(rng.randrange(1, 6)) for _ in range(count)]
    for depth in (100, 126, 150):
        deep = 1.0
        for _ in range(depth):
            deep = [deep]
        out.append(deep)
        deepo = {"k": 1.0}
        for _ in range(depth):
            deepo = {"k": deepo}
        out.append(deepo)
    out.append(list(range(3000)))
    out.append({"k%04d" % i: i for i in range(2000)})
    out += [[], {}, [[]], [{}], {"a": []}, {"a": {}}, [[], [], {}], {"": {"": {"": []}}}]
    return out


def renderings(v, rng):
    """Jsonnet expressions that all denote v: literal, lazily built, inherited with hidden/+: fields"""
    lit = jval(v)
    out = [("literal", lit)]
    if isinstance(v, list):
        out.append(("comprehension", "[x for x in %s]" % lit))
        out.append(("makeArray", "local a = %s; std.makeArray(std.length(a), function(i) a[i])" % lit))
        out.append(("concat-slice", "local a = %s; a[:1] + a[1:]" % lit))
        out.append(("reverse2", "std.reverse(std.reverse(%s))" % lit))
    if isinstance(v, dict):
        ks = sorted(v)
        half = ks[: len(ks) // 2]
        rest = ks[len(ks) // 2:]
        base = "{" + "".join("%s: %s, " % (jstr(k), jval(v[k])) for k in reversed(half)) + "hidden_zz:: error 'hidden must not be read'}"
        ext = "{" + ", ".join("%s: %s" % (jstr(k), jval(v[k])) for k in reversed(rest)) + "}"
        out.append(("inherited", "%s + %s" % (base, ext)))
        out.append(("objcomp", "local o = %s; {[k]: o[k] for k in std.reverse(std.objectFields(o))}" % lit))
        out.append(("unhide", "{%s} + {%s}" % (", ".join("%s:: %s" % (jstr(k), jval(v[k])) for k in ks),
                                               ", ".join("%s::: super[%s]" % (jstr(k), jstr(k)) for k in ks))))
    if isinstance(v, str):
        if len(v) <= 600:
            out.append(("std.char", "std.join('', [std.char(c) for c in %s])" % jval([float(ord(c)) for c in v])))
        out.append(("concat", "%s + %s" % (jstr(v[: len(v) // 2]), jstr(v[len(v) // 2:]))))
    if isinstance(v, float):
        out.append(("parseJson", "std.parseJson(%s)" % jstr(repr(v))))
    return out


# ----------------------------------------------------------------- checks
def check_text(acc, text, exp, path, case, ws=None):
    """one JSON text against the expected value"""
    acc.inc("texts_checked")
    acc.add("paths", path)
    wit = dict(case, path=path, text=text if len(text) < 600 else text[:300] + "..." + text[-100:])
    low = text
    try:
        got = strict_json(text)
    except Exception as e:
        acc.violation({"oracle": "not-well-formed", "path": path.split("(")[0], "why": type(e).__name__}, dict(wit, error=str(e)[:200]))
        return False
    if not same_value(got, exp):
        acc.violation({"oracle": "reads-back-differently", "path": path.split("(")[0]}, wit)
        return False
    if ws is not None:
        # whitespace between tokens consists only of the requested indent / newline / separator characters
        stripped = re.sub(r'"(?:[^"\\]|\\.)*"', '""', text)
        allowed = set(ws)
        extra = {c for c in stripped if c in " \t\r\n" and c not in allowed}
        if extra:
            acc.violation({"oracle": "unrequested-whitespace", "path": path.split("(")[0]}, dict(wit, extra=sorted(map(repr, extra))))
            return False
    return True


def check_value(acc, w, v, rng, label):
    exp = expected_of(v)
    allok = True
    for rname, expr in renderings(v, rng):
        case = {"value_label": label, "rendering": rname, "expr": expr if len(expr) < 500 else expr[:500] + "..."}
        # library formats
        for fmt in ({"fmt": "json_default"}, {"fmt": "json", "pad": 3}, {"fmt": "json_min"}, {"fmt": "json", "pad": 1}):
            acc.inc("evaluations")
            rec = w.call({"op": "eval", "code": expr, "manifest": fmt, "state_id": "s"}, timeout=60)
            cls, pay = outcome(rec)
            if cls == "ok":
                allok &= check_text(acc, pay, exp, "library:%s" % json.dumps(fmt, sort_keys=True), case)
            elif cls in ("panic", "crash"):
                p = panic_sig(pay) if cls == "panic" else ("crash", "")
                acc.violation({"oracle": "crash", "site": p[0], "msg": p[1]}, case)
                allok = False
            elif cls == "err":
                acc.violation({"oracle": "unexpected-error", "path": "library"}, dict(case, error=pay))
                allok = False
            else:
                acc.inconclusive.append({"case": case, "why": cls})
        if rname != "literal" and label != "struct":
            continue
        # std functions, all in one program (results are strings, carried by the outer minified JSON)
        parts = ["mj: std.manifestJson(v)", "mm: std.manifestJsonMinified(v)"]
        for i, (ind, nl, sep) in enumerate(EX_VARIANTS):
            args = "v, %s" % ind + ("" if nl is None else ", %s" % nl) + ("" if sep is None else ", %s" % sep)
            parts.append("ex%d: std.manifestJsonEx(%s)" % (i, args))
        if not isinstance(v, str):
            parts += ["ts: std.toString(v)", "c1: '' + v", "c2: v + ''"]
        parts.append("rt: std.manifestJsonMinified(std.parseJson(std.manifestJson(v)))")
        parts.append("rt2: std.manifestJsonMinified(std.parseJson(std.manifestJsonMinified(v)))")
        parts.append("rt3: std.manifestJsonMinified(std.parseJson(std.manifestJsonEx(v, '\\t')))")
        parts.append("eq: std.parseJson(std.manifestJsonMinified(v)) == v")
        prog = "local v = %s; {%s}" % (expr, ", ".join(parts))
        acc.inc("evaluations")
        rec = w.call({"op": "eval", "code": prog, "state_id": "s"}, timeout=120)
        cls, pay = outcome(rec)
        if cls != "ok":
            if cls in ("timeout", "harness"):
                acc.inconclusive.append({"case": case, "why": cls})
            elif cls in ("panic", "crash"):
                p = panic_sig(pay) if cls == "panic" else ("crash", "")
                acc.violation({"oracle": "crash", "site": p[0], "msg": p[1]}, case)
            elif "recursion limit exceeded" in str(pay.get("msg", "")):
                acc.violation({"oracle": "parseJson-recursion-limit", "depth_class": ">=128" if depth_of(v) >= 128 else "<128"},
                              dict(case, error=pay, depth=depth_of(v)))
            else:
                acc.violation({"oracle": "unexpected-error", "path": "std"}, dict(case, error=pay))
            allok = False
            continue
        res = json.loads(pay)
        for k, text in res.items():
            if k == "eq":
                if text is not True:
                    acc.violation({"oracle": "parseJson-not-inverse", "path": "eq"}, case)
                    allok = False
                continue
            ws = None
            if k.startswith("ex"):
                ind, nl, sep = EX_VARIANTS[int(k[2:])]
                dec = lambda s: json.loads(s)
                ws = dec(ind) + (dec(nl) if nl else "\n") + (dec(sep) if sep else ": ")
            allok &= check_text(acc, text, exp, "std:" + k, case, ws)
    if allok:
        acc.distinct(json.dumps(v, sort_keys=True, default=str)[:2000])


FUNC_VALUES = ["function(x) x", "[1, function(x) x]", "{a: function(x) x}", "{a: {b: [std.length]}}", "[[[[function() 1]]]]",
               "{a:: function(x) x, b: [self.a]}", "std.map(function(x) function(y) x, [1])"]
HIDDEN_FUNC_OK = "{a:: function(x) x, b: 1}"


def check_functions(acc, w):
    paths = ["v", "std.manifestJson(v)", "std.manifestJsonEx(v, ' ')", "std.manifestJsonMinified(v)", "std.toString(v)",
             "'' + v", "v + ''"]
    for fv in FUNC_VALUES:
        for p in paths:
            acc.inc("evaluations")
            cls, pay = outcome(w.call({"op": "eval", "code": "local v = %s; %s" % (fv, p)}))
            if cls == "ok":
                acc.violation({"oracle": "function-emitted", "path": p.split("(")[0]}, {"value": fv, "path": p, "text": pay[:200]})
            elif cls in ("panic", "crash"):
                acc.violation({"oracle": "crash", "path": p.split("(")[0]}, {"value": fv, "path": p, "observed": pay})
            else:
                acc.inc("function_rejected")
    cls, pay = outcome(w.call({"op": "eval", "code": HIDDEN_FUNC_OK}))
    if cls != "ok" or strict_json(pay) != {"b": 1.0}:
        acc.violation({"oracle": "hidden-function-field"}, {"value": HIDDEN_FUNC_OK, "observed": pay})


def shard(idx, n, tier, seed, binary, cli):
    acc = runner.Acc()
    rng = runner.rng_for(seed, "c05", idx)
    w = runner.Worker(binary, timeout=120)
    try:
        work = []
        for i, s in enumerate(all_scalars(tier)):
            work.append(("str", s))
            if i % 4 == 0:
                work.append(("str-key", {s[:40]: s, s[40:80] + "k": [s[:10]]}))
        for x in doubles():
            work.append(("num", x))
        work.append(("nums", doubles()[:300]))
        srng = runner.rng_for(seed, "c05-struct")
        for v in structures(srng, 600 if tier == "quick" else 20000):
            work.append(("struct", v))
        for label, v in runner.chunks(work, idx, n):
            check_value(acc, w, v, rng, label)
        if idx == 0:
            check_functions(acc, w)
            acc.sample({"value": {"é": [1.5, -0.0, " "]}, "paths": ["library json_default", "std.manifestJsonEx(v, '\\t')", "v + ''"]})
        # CLI stdout for a sample
        if cli:
            sample = [v for _, v in runner.chunks(work, idx, n)][:12]
            for v in sample:
                expr = jval(v)
                if len(expr) > 100000:
                    continue
                for args in ([], ["--line-padding", "0"], ["--line-padding", "7"]):
                    acc.inc("evaluations")
                    p = subprocess.run([cli["jrsonnet"]] + args + ["-e", expr], capture_output=True, timeout=120)
                    if p.returncode != 0:
                        acc.violation({"oracle": "cli-error", "path": "cli"}, {"expr": expr[:300], "stderr": p.stderr[-300:].decode("utf-8", "replace")})
                        continue
                    check_text(acc, p.stdout.decode("utf-8"), expected_of(v), "cli:" + " ".join(args), {"expr": expr[:300]})
    finally:
        w.close()
    return acc


def escape_writer_jobs():
    """directed at the unsafe byte view in the JSON string escaper: every ASCII byte class next to
    multi-byte sequences, at the start / end of the string and of the internal copy runs"""
    out = []
    for lo, hi in ((0, 32), (32, 64), (64, 96), (96, 128), (128, 160), (0x7f0, 0x810), (0xfff0, 0x10010)):
        body = "std.join('', [std.char(i) + 'é' for i in std.range(%d, %d)])" % (lo, hi - 1)
        out.append(sanit.item("local s = %s; [std.manifestJsonEx({[s]: s}, ' '), std.toString([s]), std.escapeStringJson(s), '' + {a: s}]" % body))
        out.append(sanit.item("std.manifestJsonMinified([std.char(i) for i in std.range(%d, %d)])" % (lo, hi - 1)))
    for s_ in ('""', '"\\"', '"\""', '"\n"', '"a\u0000"', '"\u0000a"', '"\u001f\u001f"', '"é\t"', '"\t😀"', '"' + "x" * 300 + '\n"'):
        out.append(sanit.item("[std.manifestJson(%s), std.toString({k: %s}), std.manifestJsonEx([%s], '\t', '\r\n', ' : ')]" % (s_, s_, s_)))
    return out


def run(tier, seed, t0):
    bins = runner.build("rel")
    cli = runner.build_cli()
    accs = runner.shard_map(shard, (tier, seed, bins["jv-worker"], cli))
    acc = runner.Acc()
    for a in accs:
        acc.merge(a)
    sanit.run_pass(acc, PROP, tier, seed, extra_items=escape_writer_jobs(),
                   quick={"asan": 200, "memcheck": 48, "miri": 24},
                   thorough={"asan": 1600, "memcheck": 320, "miri": 128})
    return runner.finish(
        PROP, tier, seed, "exploration", acc, t0,
        rule="strings covering %s, doubles across the exponent range (powers of 2 and 10 with 1-ulp neighbours, "
             "subnormals, +-2^53+-k, +-max, -0), random nested structures with hostile keys, depth 150, width 3000, "
             "empty containers; each value rendered as literal / comprehension / makeArray / inherited object with "
             "hidden and ::: fields / std.char / parseJson; 4 library formats + 17 std paths per value (+ CLI for a "
             "sample); values containing functions must be rejected on 7 paths; a sample of the jobs plus jobs directed "
             "at the unsafe byte view of the string escaper replayed under AddressSanitizer, valgrind memcheck and Miri. "
             "distinct_nontrivial = distinct values "
             "for which every text was accepted by the strict reader and read back bit-identical"
             % ("every Unicode scalar value" if tier == "thorough" else "every scalar below U+0800 plus class representatives"),
        assumptions=["Python's json module with parse_constant / object_pairs_hook guards is a correct strict JSON reader",
                     "float(text) is correctly rounded"],
        min_events=2000)


def replay(path):
    w = json.load(open(path))["witness"]
    wk = runner.Worker(runner.build("rel")["jv-worker"])
    print(json.dumps({"expr": w.get("expr"), "observed": wk.call({"op": "eval", "code": w.get("expr", "null")})}, indent=1)[:3000])
    wk.close()
    return 0
