"""C04 - evaluation is total: a value or a Jsonnet error, never a crash.

Observed: panic events (message + site) from the worker's panic monitor, worker exit by
signal, and for histories the result of sentinel jobs after every failing job on the same
thread.  Builds: rel and chk.  Oracle: no panic, no abnormal exit; allocation-failure
aborts under RLIMIT_AS are classed `resource` (counted, neither held nor violated).
"""
import itertools
import json
import os
import random
import time

from .. import runner, sanit
from ..common import jval, jnum, jstr, outcome, strict_json, panic_sig

PROP = "C04"

# ----------------------------------------------------------------- argument pool
POOL = [
    "null", "true", "false", "0", "(-0)", "(-1)", "1", "2", "0.5", "(-0.5)", "1e308", "(-1e308)",
    "9007199254740991", "9007199254740993", "2147483647", "2147483648", "(-2147483649)",
    "4294967296", "65535", "65536", "1e-320",
    '""', '"a"', '"é"', '"😀"', '"%d"', '"0"', '"-1"', '"abc,abc"', '"' + "é😀" * 150 + '"',
    "[]", "[1]", "[1, 2, 3]", '["a", "b"]', '[1, "a", null, [2], {}]', "[error 'lazy']", "[[1, 2], [3]]",
    "{}", "{a: 1}", "{a: 1, b:: 2, c: error 'lazy'}", '{a: {b: null}}',
    "function(x) x", "function(x) error 'f'", "function(x, y) x", "function(x) x % 2 == 0",
    'function(x) "k"',
]
# a smaller pool for the positions of high-arity functions (pairwise covering)
SMALL = ["null", "0", "(-1)", "1e308", "0.5", '""', '"a"', '"é😀"', "[]", "[1, 2, 3]", "{}", "{a: 1}",
         "function(x) x", "function(x, y) x"]


def wrap(call):
    # force the call and the spine of its result without manifesting unbounded data
    return ("local r = %s; [std.type(r), if std.isArray(r) then [std.type(r[i]) for i in "
            "std.range(0, std.min(std.length(r), 3) - 1)] else if std.isString(r) then std.length(r) "
            "else if std.isObject(r) then std.length(std.objectFieldsAll(r)) else 0]" % call)


def std_functions(w):
    rec = w.call({"op": "eval", "code":
                  "{[f]: std.length(std[f]) for f in std.objectFieldsAll(std) if std.isFunction(std[f])}"})
    cls, pay = outcome(rec)
    if cls != "ok":
        raise runner.Broken("cannot list std functions: %r" % (rec,))
    return {k: int(v) for k, v in strict_json(pay).items()}


SKIP_FUNCS = {"trace"}  # writes to the trace printer only; exercised by C03


def sweep_cases(funcs, tier, rng):
    out = []
    for f, ar in sorted(funcs.items()):
        if f in SKIP_FUNCS:
            continue
        if ar == 0:
            out.append(("std", f, "std.%s()" % f))
        elif ar == 1:
            for a in POOL:
                out.append(("std", f, "std.%s(%s)" % (f, a)))
        elif ar == 2:
            for a, b in itertools.product(POOL, POOL):
                out.append(("std", f, "std.%s(%s, %s)" % (f, a, b)))
        else:
            # pairwise covering by random rows until every pair of (position, value) seen
            need = set()
            for i, j in itertools.combinations(range(ar), 2):
                for a, b in itertools.product(range(len(SMALL)), repeat=2):
                    need.add((i, a, j, b))
            rows = 0
            while need and rows < (2500 if tier == "thorough" else 900):
                row = [rng.randrange(len(SMALL)) for _ in range(ar)]
                cov = {(i, row[i], j, row[j]) for i, j in itertools.combinations(range(ar), 2)}
                if cov & need or rows < 50:
                    need -= cov
                    out.append(("std", f, "std.%s(%s)" % (f, ", ".join(SMALL[k] for k in row))))
                    rows += 1
        # wrong arity
        out.append(("std", f, "std.%s(%s)" % (f, ", ".join(["1"] * (ar + 1)))))
        if ar:
            out.append(("std", f, "std.%s(%s)" % (f, ", ".join(["1"] * (ar - 1)))))
    return out


# ----------------------------------------------------------------- source fuzz
TOKENS = ["local", "x", "y", "=", ";", "1", "0.5", "1e400", '"s"', "'t'", "@'v'", "|||\n a\n|||", "(", ")",
          "[", "]", "{", "}", ":", "::", ":::", ",", ".", "+", "-", "*", "/", "%", "!", "~", "==", "!=",
          "<", "<=", ">>", "<<", "&&", "||", "&", "|", "^", "in", "if", "then", "else", "function", "for",
          "error", "assert", "import", "importstr", "importbin", "self", "super", "$", "tailstrict", "null",
          "true", "std", "std.length", "+:", "//c\n", "/*c*/", "#c\n", "é", " ", "\x00", "\\", "'", '"',
          "|||", "1.", "1e", "0x1", "..", "...", "?", "??", "@", "`"]
VALID = [
    "local f(x, y=2) = x + y; f(1) + f(1, 3) + f(y=1, x=2)",
    "{a: 1, b+: {c: self.a}, [if true then 'd']: 2, assert self.a == 1 : 'm', local z = 3, e:: z}",
    "[x * y for x in [1, 2, 3] for y in [4, 5] if x != y][1:5:2]",
    "local o = {a: 1} + {a+: 2, b: super.a}; o.b + std.length(o)",
    "if std.length('abc') > 2 then 'é' + 1 else error 'no'",
    "|||\n  text %s\n  more\n||| % 'x'",
    "std.foldl(function(a, b) a + b, std.range(1, 10), 0) tailstrict",
    "local a = [1, 2, 3]; a[0] + a[std.length(a) - 1] + {x: 1}.x + {x: 1}['x']",
    "function(a, b=2) a + b",
    "assert 1 == 1 : 'x'; -1 + !true + ~5 + (1 << 3)",
]


def fuzz_sources(tier, rng, n):
    out = []
    for _ in range(n):
        k = rng.random()
        if k < 0.25:
            out.append(("bytes", bytes(rng.randrange(256) for _ in range(rng.randrange(1, 40)))
                        .decode("utf-8", "replace")))
        elif k < 0.55:
            out.append(("tokens", " ".join(rng.choice(TOKENS) for _ in range(rng.randrange(1, 14)))))
        elif k < 0.65:
            out.append(("tokens-nospace", "".join(rng.choice(TOKENS) for _ in range(rng.randrange(1, 10)))))
        else:
            s = rng.choice(VALID)
            m = rng.random()
            i = rng.randrange(len(s) + 1)
            if m < 0.3:
                s = s[:i] + s[i + 1:]
            elif m < 0.6:
                s = s[:i] + rng.choice(TOKENS) + s[i:]
            elif m < 0.8:
                s = s[:i]
            else:
                j = rng.randrange(len(s) + 1)
                s = s[:min(i, j)] + s[max(i, j):]
            out.append(("mutant", s))
    return out


# ----------------------------------------------------------------- recursion / self-dependence
# shapes whose depth is a depth of nested *calls*: above the limit a StackOverflow error is
# required.  In the lazy shapes the nesting is in element / field forcing, which the statement
# does not tie to the frame limit: above the limit either the correct value or StackOverflow.
CALL_SHAPES = ("plain", "mutual", "field", "map", "thunk")


def recursion_cases():
    out = []
    shapes = {
        "plain": ("local f(n) = if n == 0 then 0 else 1 + f(n - 1); f(%d)", lambda d: d),
        "mutual": ("local f(n) = if n == 0 then 0 else 1 + g(n - 1), g(n) = if n == 0 then 0 else 1 + f(n - 1); f(%d)", lambda d: d),
        "field": ("local o = {f(n): if n == 0 then 0 else 1 + self.f(n - 1)}; o.f(%d)", lambda d: d),
        "array": ("local f(n) = if n == 0 then [0] else [f(n - 1)[0] + 1]; f(%d)[0]", lambda d: d),
        "map": ("local f(n) = if n == 0 then 0 else std.map(function(x) f(x), [n - 1])[0] + 1; f(%d)", lambda d: d),
        "thunk": ("local f(n) = if n == 0 then 0 else local v = f(n - 1); v + 1; f(%d)", lambda d: d),
        "objchain": ("local f(n) = if n == 0 then {v: 0} else {v: f(n - 1).v + 1}; f(%d).v", lambda d: d),
    }
    for limit in (20, 200, 512, 5000):
        for name, (tpl, val) in shapes.items():
            for depth, expect in ((max(1, limit // 8), "ok"), (limit * 3 + 50, "overflow"),
                                  (limit * 40 + 10, "overflow")):
                out.append((name, limit, depth, expect, tpl % depth, float(val(depth))))
    return out


# runaway (non-terminating) recursion: must end in an error, never a crash or a hang
RUNAWAY = [
    "local f(n) = 1 + f(n + 1); f(0)",
    "local f(n) = g(n + 1), g(n) = 1 + f(n + 1); f(0)",
    "local o = {f(n): 1 + self.f(n + 1)}; o.f(0)",
    "local f(n) = [f(n + 1)[0] + 1]; f(0)[0]",
    "local f(n) = {v: f(n + 1).v + 1}; f(0).v",
    "local f(n) = local v = f(n + 1); v + 1; f(0)",
    "local f(n) = std.map(function(x) f(x), [n + 1])[0] + 1; f(0)",
    "local f(n) = std.makeArray(1, function(i) f(n + 1)[0] + 1); f(0)[0]",
    "local f(n) = {[k]: f(n + 1).a + 1 for k in ['a']}; f(0).a",
    "local f(n) = [x + 1 for x in f(n + 1)]; f(0)[0]",
    "local f(n) = {a: 1} + {a+: f(n + 1).a}; f(0).a",
    "local f(n) = std.foldl(function(a, b) a + f(b), [n + 1], 0); f(0)",
    "local f(n) = std.length(std.filter(function(x) f(x) > 0, [n + 1])); f(0)",
    "local f(n) = std.sort([n + 1, n + 2], function(x) f(x))[0]; f(0)",
    "local f(n) = std.objectValues({a: f(n + 1)[0]}); f(0)[0]",
    "local f(n) = '%d' % f(n + 1); f(0)",
    "local f(n) = std.toString(f(n + 1)); f(0)",
    "local f(n) = std.mapWithKey(function(k, v) f(n + 1).a, {a: 1}); f(0).a",
    "local f(n) = std.join('', [f(n + 1)]); f(0)",
    "local f(n) = std.get({a: f(n + 1)}, 'a'); f(0)",
    "local f(n) = {a: f(n + 1).a, assert self.a > 0}; f(0).a",
    "local f(n) = {local l = f(n + 1).a, a: l}; f(0).a",
    "local f(n) = std.flatMap(function(x) f(x), [n + 1]); f(0)",
    "local f(n) = std.mergePatch({a: 1}, {a: f(n + 1).a}); f(0).a",
]


SELF_DEP = [
    "local a = a; a", "local a = b, b = a; a", "local a = [a[0]]; a[0]", "{a: self.a}.a",
    "{a: self.b, b: self.a}.a", "local o = {a: $.a + 1}; o.a", "local f(x=x) = x; f()",
    "local f(x=y, y=x) = x; f()", "local a = {b: a.b}; a.b", "local a = std.length(a); a",
    "{a: super.a}.a", "local a = [x for x in a]; a", "local s = s + 'x'; s",
    "{assert self.a == 1, a: self.b, b: self.a}",
    # an element of a lazily built array that needs itself
    "local a = std.map(function(x) a[0], [1]); a[0]", "local a = std.makeArray(2, function(i) a[i]); a[1]",
    "local a = std.mapWithIndex(function(i, x) a[i] + x, [1, 2]); a[0]", "local a = [a[1], a[0]]; a[0]",
    "local a = std.map(function(x) a[1 - x], [0, 1]); a[0]", "local a = std.filter(function(x) a[0] > 0, [1]); a[0]",
    "local o = {a: std.map(function(x) o.a[0], [1])}; o.a[0]", "local a = [x + a[0] for x in [1]]; a[0]",
    "local a = std.makeArray(1, function(i) std.length(std.toString(a))); a[0]", "local a = std.sort(std.map(function(x) a[0], [1])); a[0]",
]

# elements that refer to *other* elements of the array they belong to (running totals, memoised recurrences): a value
SELF_REF_OK = [
    ("local a = std.makeArray(6, function(i) if i == 0 then 1 else a[i - 1] + 1); a[5]", 6.0),
    ("local a = std.map(function(x) if x == 0 then 1 else a[x - 1] * 2, std.range(0, 7)); a[7]", 128.0),
    ("local a = std.mapWithIndex(function(i, x) if i == 0 then x else a[i - 1] + x, [1, 2, 3, 4]); a[3]", 10.0),
    ("local a = [if i < 2 then 1 else a[i - 1] + a[i - 2] for i in std.range(0, 10)]; a[10]", 89.0),
    ("local a = std.makeArray(3, function(i) std.length(a)); a", [3.0, 3.0, 3.0]),
    ("local a = std.map(function(x) std.length(a) + x, [1, 2]); [a[1], a[0], a[1]]", [4.0, 3.0, 4.0]),
    ("local o = {t: std.map(function(i) if i == 0 then 0 else o.t[i - 1] + i, std.range(0, 4))}; o.t[4]", 10.0),
    ("local a = std.map(function(x) x, std.map(function(x) if x == 0 then 5 else a[0], [0, 1])); a[1]", 5.0),
    ("local a = std.reverse(std.makeArray(3, function(i) if i == 2 then 7 else a[0])); a", [7.0, 7.0, 7.0]),
]

# configurations of external variables and top-level arguments (value, code, from file; present, missing,
# unknown, malformed, self-referring) over programs that read them or ignore them
CFG_PROGRAMS = ["std.extVar('a')", "std.extVar('missing')", "[std.extVar('a'), std.extVar('b')]", "function(a, b=2) [a, b]", "function() 1",
                "function(a) a", "1", "function(a=error 'x') 1", "function(a) std.extVar('a')", "{f: function(a) a}", "function(a) function(b) [a, b]",
                "function(a, a2=a) a2", "std.length(std.extVar('a'))", "function(b, a) a"]
CFG_VALUES = [("str", ""), ("str", "x"), ("str", "é😀"), ("str", "1+"), ("code", "1+1"), ("code", "1+"), ("code", "error 'e'"), ("code", "function(x) x"),
              ("code", "std.extVar('a')"), ("code", "std.extVar('b')"), ("code", "import 'nonexistent.jsonnet'"), ("code", "{a: std.extVar('b')}"),
              ("code", "local r(n) = r(n + 1); r(0)"), ("code", ""), ("code", "\u0000"), ("strfile", "/nonexistent/file"), ("codefile", "/nonexistent/file"),
              ("codefile", "/dev/null"), ("strfile", "/dev/null")]


def config_cases(rng, n):
    out = []
    for _ in range(n):
        job = {}
        for key in ("ext", "tla"):
            if rng.random() < 0.75:
                names = rng.sample(["a", "b", "zz", "a2", ""], rng.randrange(1, 4))
                job[key] = [[nm] + list(rng.choice(CFG_VALUES)) for nm in names]
        if "tla" not in job and rng.random() < 0.5:
            job["tla"] = []
        out.append((rng.choice(CFG_PROGRAMS), job))
    return out


NEST = {
    "array": ("[" , "1", "]"), "paren": ("(", "1", ")"), "unary": ("-", "1", ""), "not": ("!", "true", ""),
    "object": ("{a:", "1", "}"), "func": ("function(x) ", "1", ""), "index": ("", "[[1]]", "[0]"),
    "local": ("local a = 1; ", "a", ""), "if": ("if true then ", "1", ""), "error": ("error ", "'x'", ""),
}


def nest_cases(tier):
    out = []
    depths = [10, 100, 500, 2000, 10000] + ([50000, 100000] if tier == "thorough" else [])
    for name, (o, mid, c) in NEST.items():
        for d in depths:
            out.append((name, d, o * d + mid + c * d))
    for d in depths:
        out.append(("binchain", d, "+".join(["1"] * d)))
        out.append(("concatchain", d, "+".join(["[1]"] * min(d, 10000))))
    return out


# ----------------------------------------------------------------- running
RESOURCE_PANICS = [("jrsonnet-interner/src/inner.rs", "assertion failed: !data.is_null()"),
                   ("stacker", "mmap failed to allocate stack")]

def observe(acc, w, build, cat, name, code, extra=None, job_extra=None, timeout=8.0):
    """run one job; classify. returns (cls, payload)"""
    job = {"op": "eval", "code": code}
    if job_extra:
        job.update(job_extra)
    acc.inc("evaluations")
    t = time.time()
    rec = w.call(job, timeout=timeout)
    cls, pay = outcome(rec)
    acc.inc("outcome_" + cls)
    acc.inc("ms_" + cat.split("-")[0], int((time.time() - t) * 1000))
    wit = {"category": cat, "target": name, "code": code if len(code) < 2000 else code[:300] + "...<%d chars>" % len(code),
           "build": build, "job": {k: v for k, v in (job_extra or {}).items()}}
    if extra:
        wit.update(extra)
    if cls == "panic" and cat != "runaway" and any(a in pay.get("site", "") and b in pay.get("msg", "") for a, b in RESOURCE_PANICS):
        # allocation failure reported through an assertion instead of handle_alloc_error
        acc.inc("resource_class")
        acc.add("resource_examples", (name + ": " + code)[:120])
    elif cls == "panic":
        f, m = panic_sig(pay)
        acc.add("panic_sites", "%s | %s" % (f, m))
        acc.violation({"oracle": "panic", "category": cat, "target": name if cat == "std" else cat,
                       "site": f, "msg": m}, dict(wit, observed=pay))
    elif cls == "crash":
        kind = runner.classify_crash(rec)
        if kind == "resource" and cat != "runaway":
            acc.inc("resource_class")
            acc.add("resource_examples", (name + ": " + code)[:120])
        else:
            err = pay.get("stderr", "")
            what = "stack-overflow" if "has overflowed its stack" in err else "abort"
            sig = {"oracle": "crash", "category": cat,
                   "target": name if cat in ("std", "nesting") else cat, "what": what}
            if cat == "nesting":
                sig["depth_class"] = ">=2000" if (extra or {}).get("depth", 0) >= 2000 else "<2000"
            acc.violation(sig,
                          dict(wit, observed={k: (v[-400:] if isinstance(v, str) else v) for k, v in pay.items()}))
    elif cls == "timeout":
        acc.inconclusive.append({"case": wit, "why": "watchdog %.0fs" % timeout})
    elif cls == "harness":
        acc.inconclusive.append({"case": wit, "why": "harness"})
    return cls, pay


REC = "local f(n) = if n == 0 then 0 else 1 + f(n - 1); f(%d)"


D0 = {}


def calibrate(binary):
    """deepest recursion that succeeds on a fresh thread of this build at the default frame limit"""
    if binary not in D0:
        w = runner.Worker(binary, timeout=30)
        D0[binary] = None
        # ascending, so that the only evaluation that is cut off by the limit is the last one (a thread that
        # has already seen an overflow is exactly what the sentinel is about)
        for d in range(150, 260):
            cls, pay = outcome(w.call({"op": "eval", "code": REC % d}))
            if cls != "ok":
                break
            D0[binary] = d
        w.close()
    return D0[binary]


def sentinel(acc, w, build, after):
    """after any error the same thread evaluates further programs normally; in particular the number of
    frames available is exactly what a fresh thread has: the deepest recursion that succeeded there still
    succeeds and one frame more is still cut off"""
    d0 = D0.get(w.binary)
    probes = [("1 + 1", 2.0)]
    if d0 is not None:
        probes += [(REC % d0, float(d0)), (REC % (d0 + 1), "StackOverflow")]
    else:
        probes += [(REC % 180, 180.0)]
    for code, want in probes:
        acc.inc("evaluations")
        acc.inc("sentinels")
        cls, pay = outcome(w.call({"op": "eval", "code": code}))
        if isinstance(want, str):
            good = cls == "err" and pay["kind"] == want
        else:
            good = cls == "ok" and strict_json(pay) == want
        if not good and cls not in ("timeout", "harness"):
            acc.violation({"oracle": "history", "sentinel": "frame-budget-changed" if "f(n)" in code else code[:12], "after": after.get("category")},
                          {"after": after, "sentinel": code, "expected": want, "observed": [cls, pay], "build": build, "fresh_thread_depth": d0})
            # restart so that one leak is reported once, not after every later error
            w.close()
            break


def shard(idx, n, tier, seed, builds):
    acc = runner.Acc()
    rng = runner.rng_for(seed, "c04", idx)
    grng = runner.rng_for(seed, "c04-global")
    for build, binary in builds.items():
        w = runner.Worker(binary, timeout=8.0)
        try:
            funcs = std_functions(w)
            acc.n["std_functions"] = len(funcs)
            acc.add("fresh_thread_depth", "%s=%s" % (build, calibrate(binary)))
            cases = sweep_cases(funcs, tier, runner.rng_for(seed, "c04-sweep"))
            mine = runner.chunks(cases, idx, n)
            nerr = 0
            for cat, name, call in mine:
                cls, pay = observe(acc, w, build, cat, name, wrap(call))
                acc.add("std_covered", name)
                if cls == "ok":
                    acc.distinct(call)
                if cls == "err":
                    acc.distinct(call)
                    nerr += 1
                    if nerr % 50 == 0:
                        sentinel(acc, w, build, {"category": cat, "code": call})
            # source fuzz
            nf = (6000 if tier == "quick" else 60000) // n
            for kind, src in fuzz_sources(tier, rng, nf):
                cls, pay = observe(acc, w, build, "fuzz-" + kind, kind, src)
                if cls in ("ok", "err"):
                    acc.distinct(src)
                if cls == "err" and rng.random() < 0.05:
                    sentinel(acc, w, build, {"category": "fuzz", "code": src})
            # recursion sweep, self-dependence, nesting: small, split across shards
            for name, limit, depth, expect, code, value in runner.chunks(recursion_cases(), idx, n):
                cls, pay = observe(acc, w, build, "recursion", name, code,
                                   extra={"limit": limit, "depth": depth}, job_extra={"max_stack": limit},
                                   timeout=60)
                if cls not in ("ok", "err"):
                    continue
                good = False
                if cls == "ok" and strict_json(pay) == value and (expect == "ok" or name not in CALL_SHAPES):
                    good = True
                elif cls == "err" and expect == "overflow" and pay["kind"] == "StackOverflow":
                    good = True
                    sentinel(acc, w, build, {"category": "recursion", "code": code})
                if good:
                    acc.distinct(code)
                else:
                    acc.violation({"oracle": "frame-limit", "shape": name, "expect": expect,
                                   "got": cls if cls == "ok" else pay["kind"]},
                                  {"code": code, "limit": limit, "depth": depth, "observed": pay, "build": build})
            # runaway recursion runs in a worker with a 2 GiB address space so that an
            # unstopped recursion dies (panic/abort = violation) well before the watchdog
            wr = runner.Worker(binary, timeout=90.0, mem_gib=2)
            for code in runner.chunks(RUNAWAY, idx, n):
                for limit in (200, 2000):
                    cls, pay = observe(acc, wr, build, "runaway", "runaway", code,
                                       job_extra={"max_stack": limit}, timeout=60)
                    if cls == "err" and pay["kind"] in ("StackOverflow", "InfiniteRecursionDetected"):
                        acc.distinct(code + str(limit))
                        sentinel(acc, wr, build, {"category": "runaway", "code": code})
                    elif cls in ("ok", "err"):
                        acc.violation({"oracle": "runaway-not-stopped", "code": code,
                                       "got": cls if cls != "err" else pay["kind"]},
                                      {"code": code, "limit": limit, "observed": pay, "build": build})
            wr.close()
            for code in runner.chunks(SELF_DEP, idx, n):
                cls, pay = observe(acc, w, build, "self-dependent", "selfdep", code)
                if cls == "err" and pay["kind"] in ("InfiniteRecursionDetected", "StackOverflow"):
                    acc.distinct(code)
                    sentinel(acc, w, build, {"category": "self-dependent", "code": code})
                elif cls == "err":
                    acc.distinct(code)
                elif cls == "ok":
                    acc.violation({"oracle": "self-dependent-value", "code": code},
                                  {"code": code, "observed": pay, "build": build})
            for code, want in runner.chunks(SELF_REF_OK, idx, n):
                cls, pay = observe(acc, w, build, "self-referring-array", "selfref", code)
                if cls == "ok" and strict_json(pay) == want:
                    acc.distinct(code)
                elif cls in ("ok", "err"):
                    acc.violation({"oracle": "self-referring-array-value", "code": code, "got": cls if cls == "ok" else pay["kind"]},
                                  {"code": code, "expected": want, "observed": pay, "build": build})
            for code, job in config_cases(rng, (3000 if tier == "quick" else 40000) // n):
                cls, pay = observe(acc, w, build, "config", "config", code, job_extra=job)
                if cls in ("ok", "err"):
                    acc.distinct(code + json.dumps(job, sort_keys=True))
                    acc.add("config_kinds", "+".join(sorted({v[1] for k in ("ext", "tla") for v in job.get(k, [])})) or "none")
                    if cls == "err" and rng.random() < 0.1:
                        sentinel(acc, w, build, {"category": "config", "code": code})
            for name, d, code in runner.chunks(nest_cases(tier), idx, n):
                cls, pay = observe(acc, w, build, "nesting", name, code, extra={"depth": d},
                                   job_extra={"max_stack": 200000}, timeout=60)
                if cls in ("ok", "err"):
                    acc.distinct("%s-%d" % (name, d))
                    acc.add("nesting_survived", "%s@%d" % (name, d))
                else:
                    acc.add("nesting_failed", "%s@%d" % (name, d))
        finally:
            w.close()
    acc.sample({"std_call": wrap("std.slice([1, 2, 3], 0, 1e308, 0.5)")})
    return acc


def run(tier, seed, t0):
    builds = {"rel": runner.build("rel")["jv-worker"], "chk": runner.build("chk")["jv-worker"]}
    accs = runner.shard_map(shard, (tier, seed, builds))
    acc = runner.Acc()
    for a in accs:
        acc.merge(a)
    acc.n["std_functions"] = accs[0].n.get("std_functions", 0)
    # memory monitors: a sample of the jobs that just ran to a value / error on `rel` is replayed under
    # AddressSanitizer, valgrind memcheck and Miri (a memory error is the crash the property excludes)
    sanit.run_pass(acc, PROP, tier, seed,
                   quick={"asan": 480, "memcheck": 96},
                   thorough={"asan": 2400, "memcheck": 480, "miri": 128})
    return runner.finish(
        PROP, tier, seed, "exploration", acc, t0,
        rule="(c) every function listed by std.objectFieldsAll(std) at run time x boundary argument "
             "tuples (all tuples from a %d-value pool for arity <= 2, pairwise covering for >= 3, wrong "
             "arity); (a) random bytes / token soup / mutated valid programs as source; (d) 7 recursion "
             "shapes x frame limits {20,200,512,5000} below and above the limit; (e) self-dependent "
             "values; (g) syntactic nesting sweep; (i) external-variable / top-level-argument configurations (value, code, "
             "from file; missing, unknown, malformed, self-referring); (f) sentinel evaluations on the same thread after "
             "errors; on rel and chk builds; (h) a sample of those jobs replayed under AddressSanitizer, "
             "valgrind memcheck and (thorough) Miri. distinct_nontrivial = distinct sources that ran to a value "
             "or a Jsonnet error" % len(POOL),
        assumptions=["allocation-failure aborts under RLIMIT_AS=8GiB are classed `resource`",
                     "watchdog expiry (8 s per std/fuzz job, 60 s for recursion jobs) is inconclusive, never a violation"],
        min_events=1000)


def replay(path):
    w = json.load(open(path))["witness"]
    b = runner.build(w.get("build", "rel"))
    wk = runner.Worker(b["jv-worker"])
    job = {"op": "eval", "code": w["code"]}
    job.update(w.get("job") or {})
    print(json.dumps({"job": job, "observed": wk.call(job)}, indent=1, default=str)[:3000])
    wk.close()
    return 0
