"""C09 - numbers are IEEE-754 doubles with checked range and coherent comparison.

Workload: exhaustive, seed-independent: all ordered pairs of a boundary-dense set of
doubles under every binary numeric operator and binary std math function; singles under
unary operators and unary std math functions; triples for std.clamp (thorough).
Oracle: Python float arithmetic (IEEE-754, correctly rounded) and the platform libm called
through ctypes; non-finite / domain error => an error is required.
"""
import ctypes
import ctypes.util
import itertools
import json
import math
import struct
import time

from .. import runner, sanit
from ..common import jnum, outcome, strict_json, bits, panic_sig

PROP = "C09"

libm = ctypes.CDLL(ctypes.util.find_library("m") or "libm.so.6")
for _n in ("round", "floor", "ceil", "log", "log2", "log10", "sqrt", "sin", "cos", "tan", "asin",
           "acos", "atan", "exp", "fabs"):
    getattr(libm, _n).restype = ctypes.c_double
    getattr(libm, _n).argtypes = [ctypes.c_double]
for _n in ("pow", "atan2", "hypot", "fmod", "fmax", "fmin"):
    getattr(libm, _n).restype = ctypes.c_double
    getattr(libm, _n).argtypes = [ctypes.c_double, ctypes.c_double]
libm.frexp.restype = ctypes.c_double
libm.frexp.argtypes = [ctypes.c_double, ctypes.POINTER(ctypes.c_int)]


def nextafter(x, d):
    return math.nextafter(x, d)


def boundary_set():
    B = [0.0, -0.0, 5e-324, -5e-324, 2.225073858507201e-308, 2.2250738585072014e-308,
         -2.2250738585072014e-308, 1.0, -1.0, 2.0, -2.0, 3.0, -3.0, 0.5, -0.5, 1.5, 2.5, -2.5,
         0.1, 0.2, 0.30000000000000004, 1 / 3, 3.141592653589793, 2.718281828459045,
         7.0, 10.0, 63.0, 64.0, 65.0, 255.0, 1e-20, 2e-20, 1e-7, 1e21, 1e100, 1e-100,
         2.0 ** 31 - 1, 2.0 ** 31, 2.0 ** 31 + 1, -(2.0 ** 31), 2.0 ** 32, 2.0 ** 32 + 1,
         2.0 ** 52, 2.0 ** 53 - 1, 2.0 ** 53, 2.0 ** 53 + 2, -(2.0 ** 53 - 1), -(2.0 ** 53),
         -(2.0 ** 53 + 2), 2.0 ** 62, 2.0 ** 63, -(2.0 ** 63), 2.0 ** 64,
         1.7976931348623157e308, -1.7976931348623157e308, 8.98846567431158e307,
         nextafter(1.0, 2.0), nextafter(1.0, 0.0), nextafter(2.0 ** 53, 0.0),
         nextafter(1e15, 2e15), 1e15, 123456789.0, 4503599627370497.0, -4503599627370496.0,
         0.49999999999999994, 1e308, 1e-308, 6.0, -7.0, 1024.0]
    out, seen = [], set()
    for x in B:
        b = bits(x)
        if b not in seen:
            seen.add(b)
            out.append(x)
    return out


SAFE = 2.0 ** 53 - 1
I64MIN, I64MAX = -(2 ** 63), 2 ** 63 - 1

ERR = "error"
ANY = "any"   # statement does not pin the outcome: error-or-finite


def fin(x):
    return x if (isinstance(x, float) and math.isfinite(x)) else ERR


def py_div(a, b):
    if b == 0:
        return ERR
    try:
        return fin(a / b)
    except OverflowError:
        return ERR


def py_mul(a, b):
    return fin(a * b)


def py_mod(a, b):
    if b == 0:
        return ERR
    return fin(math.fmod(a, b))


def bitop(f):
    def g(a, b):
        if abs(a) > SAFE or abs(b) > SAFE:
            return ERR
        return float(f(int(a), int(b)))
    return g


def shl(a, b):
    if b < 0 or abs(a) > SAFE or abs(b) > SAFE:
        return ERR
    if int(b) >= 64:
        return ANY
    r = int(a) << int(b)
    if r < I64MIN or r > I64MAX:
        return ERR
    return float(r)


def shr(a, b):
    if b < 0 or abs(a) > SAFE:
        return ERR
    if abs(b) > SAFE:
        return ANY
    if int(b) >= 64:
        return ANY
    return float(int(a) >> int(b))


def guard(f):
    def g(*a):
        try:
            r = f(*a)
        except (ValueError, OverflowError, ZeroDivisionError):
            return ERR
        return fin(float(r))
    return g


BINOPS = {
    "+": lambda a, b: fin(a + b), "-": lambda a, b: fin(a - b), "*": py_mul, "/": py_div,
    "%": py_mod,
    "&": bitop(lambda a, b: a & b), "|": bitop(lambda a, b: a | b), "^": bitop(lambda a, b: a ^ b),
    "<<": shl, ">>": shr,
}
CMPOPS = {"<": lambda a, b: a < b, "<=": lambda a, b: a <= b, ">": lambda a, b: a > b,
          ">=": lambda a, b: a >= b, "==": lambda a, b: a == b, "!=": lambda a, b: a != b}
BINFNS = {
    "pow": guard(libm.pow), "atan2": guard(libm.atan2), "hypot": guard(libm.hypot),
    "max": guard(libm.fmax), "min": guard(libm.fmin),
    "modulo": lambda a, b: fin(libm.fmod(a, b)),
    "mod": py_mod,
}


def c_frexp(x):
    e = ctypes.c_int(0)
    m = libm.frexp(x, ctypes.byref(e))
    return m, e.value


def sign(x):
    return 0.0 if x == 0 else math.copysign(1.0, x)


UNFNS = {
    "abs": guard(libm.fabs), "sign": sign, "floor": guard(libm.floor), "ceil": guard(libm.ceil),
    "round": guard(libm.round), "log": guard(libm.log), "log2": guard(libm.log2),
    "log10": guard(libm.log10), "sqrt": guard(libm.sqrt), "sin": guard(libm.sin),
    "cos": guard(libm.cos), "tan": guard(libm.tan), "asin": guard(libm.asin),
    "acos": guard(libm.acos), "atan": guard(libm.atan), "exp": guard(libm.exp),
    "mantissa": lambda x: c_frexp(x)[0], "exponent": lambda x: float(c_frexp(x)[1]),
}
BOOLFNS = {
    "isEven": lambda x: libm.fmod(libm.round(x), 2.0) == 0,
    "isOdd": lambda x: libm.fmod(libm.round(x), 2.0) != 0,
    "isInteger": lambda x: libm.round(x) == x,
    "isDecimal": lambda x: libm.round(x) != x,
}
# not libm: documented as x*pi/180; either rounding of the constant product is accepted
TWOWAY = {
    "deg2rad": lambda x: {fin(x * math.pi / 180), fin(x * (math.pi / 180))},
    "rad2deg": lambda x: {fin(x * 180 / math.pi), fin(x * (180 / math.pi))},
}


def cases(tier):
    B = boundary_set()
    out = []
    for a, b in itertools.product(B, B):
        for op in BINOPS:
            out.append(("bin", op, (a, b)))
        for fn in BINFNS:
            out.append(("fn2", fn, (a, b)))
        out.append(("cmp", "all", (a, b)))
    extra = B + [x * 0.37 for x in range(-40, 41)] + [10.0 ** k for k in range(-30, 31, 3)] + \
        [float(k) + 0.5 for k in range(-6, 7)] + [float(k) for k in range(-6, 7)]
    for x in extra:
        for fn in list(UNFNS) + list(BOOLFNS) + list(TWOWAY):
            out.append(("fn1", fn, (x,)))
        out.append(("un", "-", (x,)))
        out.append(("un", "+", (x,)))
        out.append(("un", "~", (x,)))
    T = B[:8] + [1.0, -1.0, 2.0, 3.0, 0.5, 1e308, -1e308, 2.0 ** 53, 7.0, -7.0, 1e-7, 64.0]
    trip = T if tier == "thorough" else [0.0, -0.0, 1.0, 2.0, 3.0, -1.0, 0.5, 1e308]
    for t in itertools.product(trip, repeat=3):
        out.append(("clamp", "clamp", t))
    return out


def random_double(rng):
    """doubles spread over the whole exponent range, with a bias towards integers and short decimals"""
    k = rng.random()
    if k < 0.25:
        x = float(rng.randrange(-10 ** rng.randrange(1, 17), 10 ** rng.randrange(1, 17)))
    elif k < 0.45:
        x = round(rng.uniform(-1000, 1000), rng.randrange(0, 6))
    elif k < 0.85:
        x = math.ldexp(rng.uniform(0.5, 1.0), rng.randrange(-1074, 1024)) * rng.choice((1, -1))
    else:
        x = struct.unpack(">d", struct.pack(">Q", rng.getrandbits(64)))[0]
    return x if math.isfinite(x) else 1.0


def dense_cases(tier, seed):
    """seed-dependent part: random operands for every operator / function, an integer grid for pow"""
    rng = runner.rng_for(seed, "c09-dense")
    n1, n2 = (250, 400) if tier == "quick" else (4000, 6000)
    out = []
    for _ in range(n1):
        x = random_double(rng)
        for fn in list(UNFNS) + list(BOOLFNS) + list(TWOWAY):
            out.append(("fn1", fn, (x,)))
    for _ in range(n2):
        a, b = random_double(rng), random_double(rng)
        if rng.random() < 0.3:
            b = float(rng.randrange(-70, 70))
        op = rng.choice(list(BINOPS))
        out.append(("bin", op, (a, b)))
        out.append(("fn2", rng.choice(list(BINFNS)), (a, b)))
        if rng.random() < 0.2:
            out.append(("cmp", "all", (a, b if rng.random() < 0.7 else nextafter(a, b))))
    bases = [2.0, 3.0, 5.0, 6.0, 7.0, 9.0, 10.0, 11.0, 12.0, 15.0, 17.0, 100.0, 1.5, 0.1, -3.0, -10.0]
    exps = range(0, 330, 1 if tier == "thorough" else 3)
    for b in bases:
        for e in exps:
            out.append(("fn2", "pow", (b, float(e))))
            if e % 7 == 0:
                out.append(("fn2", "pow", (b, -float(e))))
    return out


def source(kind, name, args):
    A = [jnum(x) for x in args]
    if kind == "bin":
        return "%s %s %s" % (A[0], name, A[1])
    if kind == "un":
        return "%s%s" % (name, A[0])
    if kind in ("fn1", "fn2", "clamp"):
        return "std.%s(%s)" % (name, ", ".join(A))
    if kind == "cmp":
        a, b = A
        return ("local a = %s, b = %s; {lt: a < b, eq: a == b, gt: a > b, ne: a != b, le: a <= b, "
                "ge: a >= b, sort: std.sort([a, b]), sortr: std.sort([b, a]), set: std.set([a, b]), "
                "member: std.setMember(a, [b]), uniq: std.uniq([a, b]), "
                "peq: std.primitiveEquals(a, b), seq: std.equals(a, b), "
                "cmp: std.__compare(a, b), arr: [a] == [b], arrlt: [a] < [b], "
                "obj: {x: a} == {x: b}, union: std.setUnion([a], [b]), inter: std.setInter([a], [b]), "
                "diff: std.setDiff([a], [b]), cnt: std.count([a], b), mem: std.member([a], b)}"
                % (a, b))
    raise AssertionError(kind)


def has_nonfinite_token(text):
    t = text.lower()
    return "nan" in t or "inf" in t


def check_case(acc, w, kind, name, args):
    src = source(kind, name, args)
    rec = w.call({"op": "eval", "code": src, "state_id": "s"})
    cls, payload = outcome(rec)
    acc.inc("evaluations")
    sig = None
    wit = {"kind": kind, "op": name, "args": [repr(x) for x in args], "source": src}
    if cls in ("timeout", "harness"):
        acc.inconclusive.append({"case": wit, "why": cls})
        return
    if cls in ("panic", "crash"):
        # totality belongs to C04; here a crash is still a failure to deliver the prescribed
        # result, reported under the operator it hit
        p = panic_sig(payload) if cls == "panic" else ("crash", str(payload.get("signal")))
        acc.violation({"oracle": "crash", "op": name, "site": p[0], "msg": p[1]},
                      dict(wit, observed=payload))
        return
    if cls == "ok" and has_nonfinite_token(payload):
        acc.violation({"oracle": "nonfinite-observable", "op": name}, dict(wit, observed=payload))
        return
    got = ERR if cls == "err" else strict_json(payload)
    acc.add("ops", "%s:%s" % (kind, name))
    acc.inc("got_error" if got == ERR else "got_value")

    if kind == "cmp":
        a, b = args
        if got == ERR:
            acc.violation({"oracle": "comparison-error", "op": "cmp"}, dict(wit, observed=payload))
            return
        tri = [got["lt"], got["eq"], got["gt"]]
        exp = {"lt": a < b, "eq": a == b, "gt": a > b, "ne": a != b, "le": a <= b, "ge": a >= b,
               "peq": a == b, "seq": a == b, "arr": a == b, "obj": a == b, "arrlt": a < b,
               "member": a == b, "cmp": float((a > b) - (a < b)),
               "cnt": 1.0 if a == b else 0.0, "mem": a == b}
        bad = [k for k, v in exp.items() if got[k] != v]
        if sum(1 for x in tri if x is True) != 1:
            bad.append("trichotomy")
        lo, hi = (a, b) if a <= b else (b, a)
        # sorted outputs: compare as doubles (0 and -0 are equal numbers; either may come first)
        def same_list(x, y):
            return len(x) == len(y) and all(float(p) == float(q) for p, q in zip(x, y))
        if not same_list(got["sort"], [lo, hi]) or not same_list(got["sortr"], [lo, hi]):
            bad.append("sort")
        exp_set = [lo] if a == b else [lo, hi]
        if not same_list(got["set"], exp_set):
            bad.append("set")
        if not same_list(got["uniq"], [a] if a == b else [a, b]):
            bad.append("uniq")
        if not same_list(got["union"], exp_set):
            bad.append("setUnion")
        if not same_list(got["inter"], [a] if a == b else []):
            bad.append("setInter")
        if not same_list(got["diff"], [] if a == b else [a]):
            bad.append("setDiff")
        if bad:
            for k in sorted(set(bad)):
                acc.violation({"oracle": "coherent-comparison", "op": k,
                               "class": "tiny-difference" if abs(a - b) <= 2.3e-16 and a != b else "other"},
                              dict(wit, observed=got, disagreeing=bad))
        else:
            acc.distinct(src)
        return

    if kind == "bin":
        exp = BINOPS[name](*args)
    elif kind == "fn2":
        exp = BINFNS[name](*args)
    elif kind == "un":
        x = args[0]
        exp = {"-": fin(-x), "+": x, "~": ANY}[name]
    elif kind == "clamp":
        x, lo, hi = args
        # documented: if x < minVal then minVal else if x > maxVal then maxVal else x
        exp = lo if x < lo else (hi if x > hi else x)
    elif name in BOOLFNS:
        exp = BOOLFNS[name](args[0])
    elif name in TWOWAY:
        exp = TWOWAY[name](args[0])
    else:
        exp = UNFNS[name](args[0])
        if exp != ERR:
            exp = fin(float(exp))

    if exp == ANY:
        if got != ERR and not (isinstance(got, float) and math.isfinite(got)):
            acc.violation({"oracle": "nonfinite", "op": name}, dict(wit, observed=payload))
        acc.inc("abstained")
        return
    if isinstance(exp, set):
        ok = got in exp
    elif exp == ERR or got == ERR:
        ok = exp == got
    elif isinstance(exp, bool):
        ok = got is exp
    else:
        ok = isinstance(got, float) and (got == exp)
        # the sign of a zero result is part of the IEEE result for arithmetic operators
        if ok and kind in ("bin", "un") and name in "+-*/%" and exp == 0:
            ok = bits(got) == bits(exp)
    if ok:
        acc.distinct(src)
    else:
        acc.violation({"oracle": "value", "op": name,
                       "expected": "error" if exp == ERR else "value",
                       "got": "error" if got == ERR else "value"},
                      dict(wit, expected=repr(exp), observed=payload))


def shard(idx, n, tier, seed, binary):
    acc = runner.Acc()
    w = runner.Worker(binary)
    try:
        allc = cases(tier)
        for kind, name, args in runner.chunks(allc, idx, n):
            check_case(acc, w, kind, name, args)
        for kind, name, args in runner.chunks(dense_cases(tier, seed), idx, n):
            check_case(acc, w, kind, name, args)
            acc.inc("dense_cases")
        for c in allc[idx::max(1, len(allc) // 4)][:1]:
            acc.sample({"source": source(*c)})
    finally:
        w.close()
    return acc


def run(tier, seed, t0):
    bins = runner.build("rel")
    accs = runner.shard_map(shard, (tier, seed, bins["jv-worker"]))
    acc = runner.Acc()
    for a in accs:
        acc.merge(a)
    # number ordering goes through an unchecked unwrap of partial_cmp (sound only because NaN is never constructed):
    # sorts, sets and comparisons over the boundary set under the memory monitors
    B = [jnum(x) for x in boundary_set()]
    directed = ["std.sort([%s])" % ", ".join(B), "std.set([%s])" % ", ".join(B + B[::-1]), "std.sort([%s], function(x) -x)" % ", ".join(B[:30]),
                "std.minArray([%s]) + std.maxArray([%s])" % (", ".join(B[:20]), ", ".join(B[20:40])),
                "[[%s] < [%s], [%s] <= [%s]]" % (", ".join(B[:8]), ", ".join(B[:7] + B[9:10]), ", ".join(B[10:14]), ", ".join(B[10:14])),
                "std.uniq(std.sort([%s]))" % ", ".join(B[::3] + B[::3]), "std.setMember(%s, std.set([%s]))" % (B[5], ", ".join(B[:12])),
                "[x < y for x in [%s] for y in [%s]]" % (", ".join(B[:10]), ", ".join(B[-10:]))]
    sanit.run_pass(acc, PROP, tier, seed, extra_items=[sanit.item(c) for c in directed],
                   quick={"asan": 80, "miri": 8}, thorough={"asan": 1600, "memcheck": 320, "miri": 160})
    return runner.finish(
        PROP, tier, seed, "exploration", acc, t0,
        rule="exhaustive over a %d-element boundary set of doubles: all ordered pairs x %d binary "
             "operators/functions + a 19-probe comparison-coherence record per pair, singles x unary "
             "operators/functions, triples for std.clamp; plus a seeded dense part: random doubles over the whole exponent "
             "range under every function / operator and an integer base x exponent grid for std.pow; a case is counted distinct_nontrivial when "
             "its source text is new and the real result agreed with the IEEE/libm oracle"
             % (len(boundary_set()), len(BINOPS) + len(BINFNS)),
        assumptions=["Python float arithmetic and the platform libm (via ctypes) are correct IEEE-754",
                     "number literals are written with Python repr (shortest round-trip)"],
        exhaustive=False, min_events=1000,
        extra={"exhaustive_part": "all ordered pairs / singles of the boundary set under every operator and function (seed independent)"})


def replay(path):
    w = json.load(open(path))["witness"]
    bins = runner.build("rel")
    wk = runner.Worker(bins["jv-worker"])
    rec = wk.call({"op": "eval", "code": w["source"]})
    wk.close()
    print(json.dumps({"source": w["source"], "observed": rec, "expected": w.get("expected")}, indent=1))
    return 0
