"""C16 - results are deterministic and independent of history.

Observed: for each program the formatted result (manifested text, or the full error text with its
trace) obtained
  F1  as the first evaluation of a fresh worker process,
  F2  in a second fresh process whose string pool was pre-populated (in shuffled order) with the
      program's own identifiers and random strings, so every interned string lives at another address,
  H   in a long-lived process after a random history of other evaluations (values, errors, stack
      overflows) in a long-lived evaluation state,
  H'  in the same long-lived process with a fresh state,
  H2  again in the long-lived state (the program's own earlier run is now part of the history),
  X   from repeated runs of the executable (separate processes, ASLR on; stdout + stderr + exit code).
Oracle: all of them are byte-identical.  No reference semantics is involved.
"""
import json
import os
import random
import re
import subprocess

from .. import runner
from ..common import jstr, outcome, panic_sig
from ..gen import prog
from ..ref import jast

PROP = "C16"
IMPORT_DIR = None


def make_import_dir():
    """files shared by all observations of one shard (same absolute path in every observation)"""
    import tempfile
    d = tempfile.mkdtemp(prefix="c16-")
    files = {"ok.libsonnet": "{ x: 1, z: [1, 2] }", "bad_eval.libsonnet": "local a = { f: 1 }; a.g",
             "bad_eval2.libsonnet": "{ a: error 'boom' }.a", "bad_syntax.libsonnet": "{ a: 1,, }",
             "bad_nested.libsonnet": "[import 'ok.libsonnet', import 'bad_eval.libsonnet']",
             "bad_assert.libsonnet": "assert 1 == 2 : 'nope'; 1",
             "lazy_bad.libsonnet": "{ a: error 'lazy a', b: import 'bad_eval.libsonnet', c: self.a }"}
    for k, v in files.items():
        with open(os.path.join(d, k), "w") as f:
            f.write(v)
    with open(os.path.join(d, "bad_utf8.libsonnet"), "wb") as f:
        f.write(b"'caf\xe9\xff'")
    return d
IDENT = re.compile(r"[A-Za-z_][A-Za-z0-9_]*")


def names(rng, n, stem=None):
    """n distinct similar-looking identifiers"""
    stem = stem or rng.choice(["field", "value", "item", "param", "aaa", "config", "x"])
    out = set()
    while len(out) < n:
        out.add(stem + rng.choice(["", "_", "1", "2", "A", "s", "x", "0", "_a", "_b", "Z", "y", "10", "01"]) + rng.choice(["", "1", "2", "a", "b"]))
    out = list(out)
    rng.shuffle(out)
    return out


def templates(rng):
    """(class, program, tla triples)"""
    T = []
    ns = names(rng, rng.randrange(3, 9))
    miss = ns[0][:-1] if len(ns[0]) > 3 else ns[0] + "q"
    while miss in ns:
        miss += "q"
    obj = "{ " + ", ".join("%s: %d" % (n, i) for i, n in enumerate(ns)) + " }"
    T.append(("field-suggestion", "%s.%s" % (obj, miss), None))
    T.append(("field-suggestion-hidden", "{ " + ", ".join("%s%s %d" % (n, rng.choice([":", "::"]), i) for i, n in enumerate(ns)) + " }.%s" % miss, None))
    T.append(("local-suggestion", "local " + ", ".join("%s = %d" % (n, i) for i, n in enumerate(ns)) + "; " + miss, None))
    T.append(("local-suggestion-nested", "local %s = 0; local f(%s) = (local %s = 1; %s); f(%s)" % (ns[0], ", ".join(ns[1:3]), ns[-1], miss, ", ".join("1" for _ in ns[1:3])), None))
    T.append(("param-suggestion", "(function(%s) 1)(%s=1)" % (", ".join("%s=0" % n for n in ns), miss), None))
    T.append(("std-suggestion", "std.%s" % rng.choice(["lenght", "objectField", "manifestJson_", "mapp", "filterr", "joi", "asciiUper", "objectHass"]), None))
    T.append(("self-suggestion", "{ " + ", ".join("%s: %d" % (n, i) for i, n in enumerate(ns)) + ", r: self.%s }.r" % miss, None))
    T.append(("super-suggestion", "({ " + ", ".join("%s: %d" % (n, i) for i, n in enumerate(ns)) + " } + { r: super.%s }).r" % miss, None))
    # several places that fail: which one is reported
    T.append(("several-failing-fields", "{ " + ", ".join("%s: error '%s'" % (n, n) for n in ns) + " }", None))
    T.append(("several-failing-fields-comp", "{ [k]: error k for k in %s }" % json.dumps(ns), None))
    # the same objects / arrays with several failing or tracing members handed to library functions that walk them
    failing = "{ " + ", ".join("%s: error '%s'" % (n, n) for n in ns) + " }"
    tracing = "{ " + ", ".join("%s: std.trace('%s', %d)" % (n, n, i) for i, n in enumerate(ns)) + " }"
    fn = rng.choice(["std.mergePatch({}, %s)", "std.mergePatch(%s, {})", "std.mergePatch({ zz: 1 }, %s)", "std.prune(%s)", "std.objectValues(%s)",
                     "std.mapWithKey(function(k, v) v, %s)", "std.manifestJsonEx(%s, ' ')", "std.toString(%s)", "std.manifestYamlDoc(%s)",
                     "std.objectKeysValues(%s)", "std.manifestToml(%s)", "std.manifestPython(%s)", "%s == %s { zz: 1 }", "std.get({ o: %s }, 'o')",
                     "std.manifestIni({ main: %s, sections: {} })", "std.assertEqual(%s, {})", "[v for v in std.objectValues(%s)]"])
    T.append(("several-failing-fields-through-std", fn.replace("%s", failing), None))
    T.append(("several-tracing-fields-through-std", fn.replace("%s", tracing), None))
    # two separately built objects with the same field names whose fields all fail (or all trace, with one difference):
    # which error equality reports, and the order of the traces, must not depend on the iteration order of a hash table
    failing2 = "{ " + ", ".join("%s: error '%s'" % (n, n) for n in reversed(ns)) + " }"
    tracing2 = "{ " + ", ".join("%s: std.trace('%s', %d)" % (n, n, i + (1 if n == sorted(ns)[-1] else 0)) for i, n in enumerate(ns)) + " }"
    eq = rng.choice(["%s == %s", "%s != %s", "std.equals(%s, %s)", "std.assertEqual(%s, %s)", "std.member([%s], %s)", "[%s] == [%s]", "std.count([%s], %s)"])
    T.append(("equality-of-failing-objects", eq % (failing, failing2), None))
    T.append(("equality-of-tracing-objects", eq % (tracing, tracing2), None))
    T.append(("several-failing-asserts", "{ " + ", ".join("assert false : '%s'" % n for n in ns[:4]) + ", a: 1 }", None))
    T.append(("several-failing-elements", "[ " + ", ".join("error '%s'" % n for n in ns) + " ]", None))
    T.append(("failing-tlas", "function(%s) [%s]" % (", ".join(ns[:4]), ", ".join(ns[:4])), [[n, "code", "error '%s'" % n] for n in ns[:4]]))
    T.append(("missing-tlas", "function(%s) 1" % ", ".join(ns[:4]), [[ns[0], "str", "v"]]))
    T.append(("unknown-tlas", "function(a) 1", [[n, "str", "v"] for n in ns[:3]]))
    T.append(("duplicate-fields", "{ " + ", ".join("[%s]: 1" % jstr(n) for n in ns + [ns[0]]) + " }", None))
    T.append(("duplicate-locals", "local " + ", ".join("%s = 1" % n for n in ns[:3] + [ns[1]]) + "; 1", None))
    T.append(("duplicate-params", "function(%s) 1" % ", ".join(ns[:3] + [ns[2]]), None))
    # enumeration order
    many = names(rng, rng.randrange(5, 40), "k")
    obj2 = "{ " + ", ".join("%s: %d" % (n, i) for i, n in enumerate(many)) + " }"
    T.append(("objectFields", "std.objectFields(%s)" % obj2, None))
    T.append(("objectFieldsAll-inherited", "std.objectFieldsAll(%s + { %s:: 1, %s+: 2 })" % (obj2, many[0], many[-1]), None))
    T.append(("manifest-large-object", obj2, None))
    T.append(("objectValues", "std.objectValues(%s)" % obj2, None))
    T.append(("objectKeysValues", "std.objectKeysValues(%s)" % obj2, None))
    T.append(("comprehension-over-object", "[k + ':' + o[k] for o in [%s] for k in std.objectFields(o)]" % obj2.replace(": ", ": ''+"), None))
    T.append(("object-comprehension", "{ [k]: std.length(k) for k in %s }" % json.dumps(many), None))
    T.append(("mapWithKey", "std.mapWithKey(function(k, v) k + v, %s)" % obj2.replace(": ", ": ''+"), None))
    T.append(("mergePatch", "std.mergePatch(%s, { %s: null, zz_new: { b: 1, a: 2 } })" % (obj2, many[0]), None))
    T.append(("prune", "std.prune(%s + { %s: null, %s: {} })" % (obj2, many[0], many[1]), None))
    T.append(("set-of-strings", "std.set(%s)" % json.dumps(many + many[:3]), None))
    T.append(("sort-by-key", "std.sort(%s, function(x) std.length(x))" % json.dumps(many), None))
    T.append(("toString-object", "'' + %s" % obj2, None))
    T.append(("manifest-yaml", "std.manifestYamlDoc(%s)" % obj2, None))
    T.append(("manifest-toml", "std.manifestToml({ t: %s, u: [%s] })" % (obj2, obj2), None))
    T.append(("manifest-python-vars", "std.manifestPythonVars(%s)" % obj2, None))
    T.append(("manifest-ini", "std.manifestIni({ main: %s, sections: { s: %s, a: %s } })" % (obj2, obj2, obj2), None))
    T.append(("equality-of-objects", "[%s == %s { %s: -1 }, %s == %s]" % (obj2, obj2, many[2], obj2, obj2), None))
    T.append(("extvars", "[" + ", ".join("std.extVar('%s')" % n for n in ns[:3]) + "]", None))
    # traces
    T.append(("trace-through-functions", "local f(x) = g(x) + 1, g(x) = h(x) * 2, h(x) = { a: x.%s }.a; f({ %s: 1 })" % (miss, ns[0]), None))
    T.append(("stack-limit", "local r(n) = 1 + r(n + 1); r(0)", None))
    T.append(("stack-limit-object", "local o = { a: self.b, b: self.c, c: self.a }; o.a", None))
    # programs whose recursion ends within a few frames of the limit (200 in these jobs): whether they give a value or a
    # stack overflow must not depend on how many earlier evaluations on this thread were cut off by the limit
    k = rng.randrange(170, 200)
    T.append(("near-stack-limit", "local f(n) = if n == 0 then 0 else 1 + f(n - 1); f(%d)" % k, None))
    T.append(("near-stack-limit-object", "local o = { f(n): if n == 0 then 0 else 1 + self.f(n - 1) }; o.f(%d)" % (k - rng.randrange(0, 8)), None))
    T.append(("near-stack-limit-map", "local f(n) = if n == 0 then 0 else std.map(function(x) f(x), [n - 1])[0] + 1; f(%d)" % (40 + rng.randrange(0, 30)), None))
    # imported files that fail (at evaluation, at parsing, at decoding) or succeed: the error text of the n-th import of a
    # failing file on one evaluation state must be that of the first
    if IMPORT_DIR:
        d = IMPORT_DIR
        bad = rng.choice(["bad_eval", "bad_eval2", "bad_syntax", "bad_utf8", "bad_nested", "bad_assert"])
        T.append(("import-failing-file", "import '%s/%s.libsonnet'" % (d, bad), None))
        T.append(("import-failing-file-lazy", "local x = import '%s/%s.libsonnet'; [1, x]" % (d, bad), None))
        T.append(("import-ok-and-failing", "[import '%s/ok.libsonnet', (import '%s/ok.libsonnet') { y: import '%s/%s.libsonnet' }]" % (d, d, d, bad), None))
        T.append(("import-failing-field", "(import '%s/lazy_bad.libsonnet').%s" % (d, rng.choice(["a", "b", "c"])), None))
        T.append(("importstr-then-import", "[std.length(importstr '%s/%s.libsonnet'), import '%s/%s.libsonnet']" % (d, bad, d, bad), None))
        T.append(("import-missing", "import '%s/missing_%s.libsonnet'" % (d, ns[0]), None))
        T.append(("import-ok", "[import '%s/ok.libsonnet', importstr '%s/ok.libsonnet', std.length(importbin '%s/bad_utf8.libsonnet')]" % (d, d, d), None))
    T.append(("type-error-message", "std.length(%s)" % rng.choice(["1", "null", "true"]), None))
    T.append(("format-error", "'%%(%s)s' %% %s" % (miss, obj), None))
    T.append(("native-missing", "std.native('%s')" % miss, None))
    return T


class Observer:
    def __init__(self, binary, cli, acc):
        self.bin, self.cli, self.acc = binary, cli, acc
        self.long = runner.Worker(binary, timeout=30)
        self.hist_n = 0

    def close(self):
        self.long.close()

    @staticmethod
    def job(code, tla, state_id=None, ext=None):
        # no "max_stack": the worker's override is relative to the thread's current depth and would mask a depth counter
        # that a previous evaluation left behind; the thread default (200 frames) is what an embedder gets
        j = {"op": "eval", "code": code, "err_detail": True, "manifest": {"fmt": "json"}}
        if tla is not None:
            j["tla"] = tla
        if ext:
            j["ext"] = ext
        if state_id:
            j["state_id"] = state_id
        return j

    @staticmethod
    def text_of(rec):
        cls, pay = outcome(rec)
        # the order in which std.trace calls fire is part of what a user sees (stderr of the executable)
        tr = "".join("\nTRACE %s:%s %s" % (os.path.basename(t[1]), t[2], t[0]) for t in rec.get("traces", []))
        if cls == "ok":
            return ("ok", pay + tr)
        if cls == "err":
            return ("err", pay.get("text", pay.get("msg")) + tr)
        return (cls, pay)

    def fresh(self, code, tla, ext, rng, pre_intern):
        w = runner.Worker(self.bin, timeout=30)
        try:
            if pre_intern:
                ids = list(dict.fromkeys(IDENT.findall(code)))
                rng.shuffle(ids)
                pool = ids + ["pre%d" % rng.randrange(10 ** 6) for _ in range(rng.randrange(1, 300))]
                rng.shuffle(pool)
                w.call({"op": "intern", "strings": pool})
            return self.text_of(w.call(self.job(code, tla, None, ext), timeout=30))
        finally:
            w.close()

    def history(self, rng, k):
        """random other evaluations in the long-lived process / state"""
        for _ in range(k):
            r = rng.random()
            if r < 0.4:
                g = prog.Gen(rng, max_depth=3, ill=0.1, err=0.1)
                code = jast.to_source(g.program())
            elif r < 0.7:
                code = rng.choice(templates(rng))[1]
            elif r < 0.85:
                code = "local r(n) = 1 + r(n + 1); r(0)"
            else:
                code = "{ %s }" % ", ".join("h%d: %d" % (rng.randrange(500), i) for i in range(rng.randrange(1, 30)))
            self.long.call(self.job(code, None, "long" if rng.random() < 0.7 else None), timeout=30)
            self.hist_n += 1
        if rng.random() < 0.2:
            self.long.call({"op": "intern", "strings": ["hist%d" % rng.randrange(10 ** 6) for _ in range(rng.randrange(1, 200))], "clear": rng.random() < 0.3})

    def observe(self, cls, code, tla, rng, label, with_cli):
        acc = self.acc
        ext = [[n, "str", "v-" + n] for n in IDENT.findall(code) if ("extVar('%s')" % n) in code]
        obs = {}
        obs["F1"] = self.fresh(code, tla, ext, rng, False)
        obs["F2"] = self.fresh(code, tla, ext, rng, True)
        self.history(rng, rng.randrange(0, 6))
        obs["H"] = self.text_of(self.long.call(self.job(code, tla, "long", ext), timeout=30))
        obs["H'"] = self.text_of(self.long.call(self.job(code, tla, None, ext), timeout=30))
        self.history(rng, rng.randrange(0, 3))
        obs["H2"] = self.text_of(self.long.call(self.job(code, tla, "long", ext), timeout=30))
        acc.inc("evaluations", 5)
        bad = [k for k, v in obs.items() if v[0] not in ("ok", "err")]
        if bad:
            for k in bad:
                v = obs[k]
                if v[0] in ("panic", "crash"):
                    p = panic_sig(v[1]) if v[0] == "panic" else ("crash", "")
                    acc.violation({"oracle": "crash", "site": p[0], "msg": p[1]}, {"program": code, "tla": tla, "where": k})
                    if not self.long.alive():
                        self.long = runner.Worker(self.bin, timeout=30)
                    return
            acc.inconclusive.append({"why": str([obs[k][0] for k in bad]), "program": code[:300]})
            if not self.long.alive():
                self.long = runner.Worker(self.bin, timeout=30)
            return
        ref = obs["F1"]
        diff = [k for k, v in obs.items() if v != ref]
        if diff:
            k = diff[0]
            acc.violation({"oracle": "output-depends-on-history-or-layout", "class": cls, "between": "F1-vs-" + k, "what": self.what(ref, obs[k])},
                          {"program": code, "tla": tla, "observations": {a: list(b) for a, b in obs.items()}, "history_length": self.hist_n})
            return
        if with_cli and tla is None and not ext:
            outs = set()
            for _ in range(3):
                acc.inc("evaluations")
                p = subprocess.run([self.cli, "-s", "200", "-e", code], capture_output=True, timeout=60)
                outs.add((p.returncode, p.stdout, p.stderr))
            if len(outs) > 1:
                a, b = list(outs)[:2]
                acc.violation({"oracle": "executable-runs-differ", "class": cls, "what": "stdout" if a[1] != b[1] else ("stderr" if a[2] != b[2] else "exit-code")},
                              {"program": code, "runs": [{"exit": o[0], "stdout": o[1].decode("utf-8", "replace")[:1500], "stderr": o[2].decode("utf-8", "replace")[:1500]} for o in outs]})
                return
            acc.inc("executable_triples_identical")
        acc.inc("programs_identical_" + ref[0])
        acc.add("classes", cls)
        acc.distinct(code)

    @staticmethod
    def what(a, b):
        if a[0] != b[0]:
            return "value-vs-error"
        if a[0] == "ok":
            return "value"
        la, lb = a[1].split("\n"), b[1].split("\n")
        if la[0] != lb[0]:
            return "suggestion-order" if ("similar names" in la[0] and sorted(re.findall(r"\w+", la[0])) == sorted(re.findall(r"\w+", lb[0]))) else "error-message"
        return "error-trace"


def worker_alive_patch():
    # Worker.alive may not exist in older runner versions
    if not hasattr(runner.Worker, "alive"):
        def alive(self):
            return self.p is not None and self.p.poll() is None
        runner.Worker.alive = alive


def shard(idx, n, tier, seed, binary, cli):
    worker_alive_patch()
    acc = runner.Acc()
    global IMPORT_DIR
    IMPORT_DIR = make_import_dir()
    ob = Observer(binary, cli, acc)
    try:
        rounds = 2 if tier == "quick" else 14
        nrand = 12 if tier == "quick" else 160
        for r in range(rounds):
            rng = runner.rng_for(seed, "c16", idx, r)
            for i, (cls, code, tla) in enumerate(templates(rng)):
                ob.observe(cls, code, tla, rng, "s%d-r%d-%d" % (idx, r, i), with_cli=(r == 0 and i % 4 == idx % 4))
        for i in range(nrand):
            rng = runner.rng_for(seed, "c16-rand", idx, i)
            g = prog.Gen(rng, max_depth=4, ill=0.15, err=0.1)
            code = jast.to_source(g.program())
            ob.observe("random", code, None, rng, "s%d-g%d" % (idx, i), with_cli=(i % 10 == 0))
        if idx == 0:
            acc.sample({"class": "local-suggestion", "program": templates(runner.rng_for(seed, "c16", 0, 0))[2][1]})
            acc.sample({"history_length_of_long_lived_worker": ob.hist_n})
    finally:
        ob.close()
        import shutil
        shutil.rmtree(IMPORT_DIR, ignore_errors=True)
        IMPORT_DIR = None
    return acc


def run(tier, seed, t0):
    global IMPORT_DIR
    bins = runner.build("rel")
    cli = runner.build_cli()["jrsonnet"]
    IMPORT_DIR = "/d"
    ntemplates = len(templates(random.Random(0)))
    IMPORT_DIR = None
    accs = runner.shard_map(shard, (tier, seed, bins["jv-worker"], cli))
    acc = runner.Acc()
    for a in accs:
        acc.merge(a)
    return runner.finish(
        PROP, tier, seed, "exploration", acc, t0,
        rule="programs from %d templates with randomised similar identifiers (suggestions for fields / locals / parameters / std members / self / super, several "
             "failing fields / asserts / elements / top-level arguments, duplicate definitions, enumeration of 5-40 fields through every listing / manifesting "
             "function, sets and sorts of strings, traces through functions, stack limits) and random generated programs (values and errors); each evaluated in "
             "two fresh processes (one with a shuffled pre-interned string pool), in a long-lived process after a random history (values, errors, stack overflows, "
             "pool changes) in a long-lived state, a fresh state and again, and a sample by 3 runs of the executable. distinct_nontrivial = programs whose 5 (8) "
             "observations were byte-identical; imports of files that fail at evaluation / parsing / decoding / through a nested import, eagerly and in lazily "
             "evaluated fields, repeated on the long-lived state" % ntemplates,
        assumptions=["address-space layout differs between processes (ASLR is on in this sandbox) and between pre-interned pools"],
        min_events=3000)


def replay(path):
    w = json.load(open(path))["witness"]
    print(json.dumps(w, indent=1, default=str, ensure_ascii=False)[:6000])
    return 0
