"""C10 - stdlib array, set and higher-order functions match their reference definitions.

Observed: JSON result or error of std.<fn>(args) through the public API.  Oracle: ports of
the documented definitions (mon/ref/stdlib_ref.py) plus port-independent laws on the real
outputs (sort: ordered stable permutation; set algebra).
"""
import itertools
import json

from .. import runner, stdcheck as S
from ..ref import stdlib_ref as R

PROP = "C10"
ALPHA = [0.0, 1.0, 2.0, -1.0, "a", "b", None, True, [1.0], [1.0, 2.0], {}]
NUMS = [0.0, 1.0, 1.0, 2.0, -1.0, 3.5]
STRS = ["a", "b", "a", "", "é"]


def arrays(tier, rng):
    out = [[]]
    for n in (1, 2, 3):
        lim = None if (n < 3 or tier == "thorough") else 500
        combos = list(itertools.product(ALPHA, repeat=n))
        if lim:
            rng.shuffle(combos)
            combos = combos[:lim]
        out += [list(c) for c in combos]
    for _ in range(600 if tier == "quick" else 6000):
        n = rng.randrange(4, 9)
        k = rng.random()
        if k < 0.4:
            out.append([rng.choice(NUMS) for _ in range(n)])
        elif k < 0.6:
            out.append([rng.choice(STRS) for _ in range(n)])
        elif k < 0.75:
            out.append([{"k": rng.choice(NUMS), "tag": float(i)} for i in range(n)])
        else:
            out.append([rng.choice(ALPHA) for _ in range(n)])
    return out


def tagged(arr):
    """[{k: key, tag: i}] so that stability is visible"""
    return [{"k": x, "tag": float(i)} for i, x in enumerate(arr)]


def law_sort(args, out):
    arr = args[0]
    keyF = args[1] if len(args) > 1 else R.ident
    if len(out) != len(arr):
        return "not-a-permutation"
    rest = list(arr)
    for o in out:
        for i, r in enumerate(rest):
            if S.deep_equal(o, S.expected_json(r)):
                del rest[i]
                break
        else:
            return "not-a-permutation"
    try:
        ks = [keyF(o) for o in out]
        for i in range(len(ks) - 1):
            if R.compare(ks[i], ks[i + 1]) > 0:
                return "not-ordered"
            if R.compare(ks[i], ks[i + 1]) == 0 and isinstance(out[i], dict) and "tag" in out[i] and "tag" in out[i + 1] \
                    and out[i]["tag"] > out[i + 1]["tag"]:
                return "not-stable"
    except (R.RefError, R.Abstain):
        return None
    return None


def universe_sets(tier):
    U = [0.0, 1.0, 2.0, 3.0, 4.0]
    subs = []
    for n in range(0, 5):
        for c in itertools.combinations(U, n):
            subs.append(list(c))
    return subs


def cases(tier, rng):
    A = arrays(tier, rng)
    kf = S.KEYFNS
    out = []
    sample = lambda lst, k: lst if len(lst) <= k else rng.sample(lst, k)
    for a in A:
        out.append(("sort", [a], law_sort))
        out.append(("uniq", [a], None))
        out.append(("set", [a], None))
        for f in sample(kf, 3):
            out.append(("sort", [a, f], law_sort))
            out.append(("uniq", [a, f], None))
            out.append(("set", [a, f], None))
        x = rng.choice(ALPHA)
        for fn in ("member", "contains", "count", "remove"):
            out.append((fn, [a, x], None))
            if a:
                out.append((fn, [a, rng.choice(a)], None))
        out.append(("find", [x, a], None))
        if a:
            out.append(("find", [rng.choice(a), a], None))
        for at in sample([-3.0, -1.0, 0.0, 1.0, float(len(a) - 1), float(len(a)), float(len(a) + 3), 0.5], 3):
            out.append(("removeAt", [a, at], None))
        out.append(("flattenArrays", [a], None))
        out.append(("flattenArrays", [[a, a]], None))
        out.append(("flattenDeepArray", [a], None))
        out.append(("flattenDeepArray", [[a, [a, [a]]]], None))
        f = rng.choice(S.FOLDS)
        init = rng.choice([0.0, [], "", None])
        out.append(("foldl", [f, a, init], None))
        out.append(("foldr", [f, a, init], None))
        out.append(("map", [rng.choice(S.MAPFNS), a], None))
        out.append(("mapWithIndex", [rng.choice(S.IDXFNS), a], None))
        p = rng.choice(S.PREDS)
        out.append(("filter", [p, a], None))
        out.append(("filterMap", [p, rng.choice(S.MAPFNS), a], None))
        out.append(("flatMap", [rng.choice(S.MAPFNS), a], None))
        out.append(("join", [rng.choice(["", ",", "ab", [], [0.0]]), a], None))
        out.append(("lines", [a], None))
        out.append(("deepJoin", [a], None))
        out.append(("any", [a], None))
        out.append(("all", [a], None))
        out.append(("sum", [a], None))
        out.append(("avg", [a], None))
        out.append(("minArray", [a], None))
        out.append(("maxArray", [a], None))
        if rng.random() < 0.3:
            out.append(("minArray", [a, rng.choice(kf)], None))
            out.append(("maxArray", [a, rng.choice(kf)], None))
        out.append(("repeat", [a, rng.choice([0.0, 1.0, 2.0, 3.0, -1.0, 0.5])], None))
        out.append(("slice", [a, rng.choice([None, 0.0, 1.0, -1.0, -3.0, 5.0]), rng.choice([None, 0.0, 2.0, -1.0, 9.0]),
                              rng.choice([None, 1.0, 2.0, 3.0, 0.0, -1.0])], None))
        # stability with explicit tags
        if all(isinstance(x, float) for x in a) and len(a) > 2:
            out.append(("sort", [tagged(a), S.JFn("function(x) x.k", S._field)], law_sort))
            out.append(("sort", [tagged(a), S.JFn("function(x) x.k % 2", lambda x: S._mod2(S._field(x)))], law_sort))
    # strings where accepted
    for s in ["", "a", "abc", "aXbXc", "é漢😀"]:
        out.append(("map", [S.JFn("function(c) c + c", lambda c: c + c), s], None))
        out.append(("flatMap", [S.JFn("function(c) c + c", lambda c: c + c), s], None))
        out.append(("flatMap", [S.JFn("function(c) if c == 'X' then null else c", lambda c: None if c == "X" else c), s], None))
        out.append(("member", [s, "b"], None))
        out.append(("member", [s, "bX"], None))
        out.append(("repeat", [s, 3.0], None))
        out.append(("deepJoin", [[s, [s, [s]]]], None))
        out.append(("join", [s, ["x", None, "y", s]], None))
        out.append(("mapWithIndex", [S.IDXFNS[0], s], None))
    # set algebra: every pair of sets of size <= 4 over a 5-element universe under each key function
    subs = universe_sets(tier)
    setkeys = [S.KEYFNS[0], S.KEYFNS[1], S.JFn("function(x) x * 2", lambda x: S.num(x) * 2)]
    for a, b in itertools.product(subs, repeat=2):
        for f in setkeys:
            fa = sorted(a, key=lambda x: f(x))
            fb = sorted(b, key=lambda x: f(x))
            for fn in ("setUnion", "setInter", "setDiff"):
                out.append((fn, [fa, fb] + ([f] if f is not setkeys[0] else []), None))
        if a:
            for x in (0.0, 2.0, 4.0, 5.0):
                out.append(("setMember", [x, a], None))
    # sets under a key function that is not injective on the elements: two different elements with the
    # same key, one in each set - the definition std.set(a + b, keyF) keeps the element of the first set
    kfield = S.KEYFNS[4]
    kmod = S.JFn("function(x) x % 10", lambda x: S.num(x) % 10)
    keys_ = [0.0, 1.0, 2.0, 3.0]
    for ma in range(1, 16):
        for mb in range(1, 16):
            if (ma * 16 + mb) % (1 if tier == "thorough" else 3):
                continue
            ka = [k for i, k in enumerate(keys_) if ma >> i & 1]
            kb = [k for i, k in enumerate(keys_) if mb >> i & 1]
            for fn in ("setUnion", "setInter", "setDiff"):
                out.append((fn, [[{"k": k, "tag": "a"} for k in ka], [{"k": k, "tag": "b"} for k in kb], kfield], None))
                out.append((fn, [[10.0 + k for k in ka], [20.0 + k for k in kb], kmod], None))
    out.append(("set", [[{"k": 1.0, "tag": "x"}, {"k": 0.0, "tag": "y"}, {"k": 1.0, "tag": "z"}], kfield], None))
    out.append(("uniq", [[11.0, 21.0, 12.0, 32.0, 2.0], kmod], None))
    # arrays longer than the small-input thresholds of sorting algorithms (insertion sort below ~20 elements), few distinct
    # keys: stability and "std.set keeps the first element of each key class" are visible through the tags
    for _ in range(40 if tier == "quick" else 400):
        n = rng.randrange(21, 120)
        nk = rng.choice([2, 3, 5, 9])
        arr = [{"k": float(rng.randrange(nk)) if rng.random() < 0.9 else float(rng.randrange(nk)) + 0.5, "tag": float(i)} for i in range(n)]
        out.append(("sort", [arr, kfield], law_sort))
        out.append(("set", [arr, kfield], None))
        out.append(("uniq", [sorted(arr, key=lambda x: x["k"]), kfield], None))
        sarr = [{"k": rng.choice("abc") * rng.randrange(1, 3), "tag": float(i)} for i in range(n)]
        out.append(("sort", [sarr, kfield], law_sort))
        out.append(("set", [sarr, kfield], None))
        nums = [float(rng.randrange(10 * nk)) for _ in range(n)]
        out.append(("sort", [nums, kmod], law_sort))
        out.append(("set", [nums, kmod], None))
        out.append(("sort", [nums], law_sort))
        out.append(("minArray", [arr, kfield], None))
        out.append(("maxArray", [arr, kfield], None))
    # join: array separators with empty arrays / nulls in every position (the separator goes between every two non-null items)
    parts = [[], [1.0], None, [2.0, 3.0]]
    for n in (1, 2, 3, 4):
        for combo in itertools.product(parts, repeat=n):
            for sep in ([0.0], [7.0, 8.0], []):
                out.append(("join", [sep, list(combo)], None))
    sparts = ["", "x", None, "yz"]
    for n in (1, 2, 3, 4):
        for combo in itertools.product(sparts, repeat=n):
            for sep in (",", "", "ab"):
                out.append(("join", [sep, list(combo)], None))
            out.append(("lines", [list(combo)], None))
    # long strings written as concatenations (kept as ropes by the evaluator), equal or differing in one character,
    # each element held as a differently shaped rope: ordering, deduplication and membership must decide on the text
    for _ in range(40 if tier == "quick" else 400):
        L = rng.randrange(100, 160)
        base = "".join(rng.choice("xyz") for _ in range(L))
        js = sorted(rng.sample(range(L), 3))
        texts = [base] + [base[:j] + c + base[j + 1:] for j in js for c in "aw~"] + [base[:L - 1], base + "x"]
        pick = [rng.choice(texts) for _ in range(rng.randrange(2, 6))]
        ra = [S.JCat.shaped(t, rng) if rng.random() < 0.8 else t for t in pick]
        out.append(("sort", [ra], law_sort))
        out.append(("uniq", [sorted(ra)], None))
        out.append(("set", [ra], None))
        out.append(("minArray", [ra], None))
        out.append(("maxArray", [ra], None))
        x = S.JCat.shaped(rng.choice(texts), rng)
        out.append(("member", [ra, x], None))
        out.append(("count", [ra, x], None))
        out.append(("find", [x, ra], None))
        out.append(("remove", [ra, x], None))
        out.append(("sort", [[{"k": t, "tag": float(i)} for i, t in enumerate(ra)], kfield], law_sort))
        sa = [S.JCat.shaped(t, rng) for t in sorted(set(pick))]
        sb = [S.JCat.shaped(t, rng) for t in sorted(set(rng.choice(texts) for _ in range(3)))]
        out.append(("setMember", [x, sa], None))
        for fn in ("setUnion", "setInter", "setDiff"):
            out.append((fn, [sa, sb], None))
        out.append(("join", [S.JCat.shaped(base[:100], rng), ra], None))
    # string sets and mixed errors
    for a, b in itertools.product([[], ["a"], ["a", "b"], ["b", "c"]], repeat=2):
        for fn in ("setUnion", "setInter", "setDiff"):
            out.append((fn, [a, b], None))
    for fn in ("setUnion", "setInter", "setDiff"):
        out.append((fn, [[1.0], ["a"]], None))
        out.append((fn, [1.0, [1.0]], None))
    # range / makeArray / wrong types
    for a, b in itertools.product([-3.0, 0.0, 1.0, 5.0, 0.5], repeat=2):
        out.append(("range", [a, b], None))
    for n in (0.0, 1.0, 3.0, -1.0, 0.5, "a", None):
        out.append(("makeArray", [n, S.JFn("function(i) i * 2", lambda i: i * 2)], None))
    wrong = [None, True, 1.0, "s", {}, S.KEYFNS[0]]
    for fn, ar in (("sort", 1), ("uniq", 1), ("set", 1), ("flattenArrays", 1), ("any", 1), ("all", 1), ("sum", 1), ("avg", 1),
                   ("lines", 1), ("minArray", 1), ("maxArray", 1), ("deepJoin", 1)):
        for v in wrong:
            out.append((fn, [v], None))
    return out


def shard(idx, n, tier, seed, binary):
    acc = runner.Acc()
    rng = runner.rng_for(seed, "c10")
    w = runner.Worker(binary, timeout=30)
    try:
        cs = cases(tier, rng)
        for i, (fn, args, law) in enumerate(cs):
            if i % n != idx:
                continue
            S.check_call(acc, w, PROP, fn, args, law)
        if idx == 0:
            acc.sample({"call": "std.sort(%s, %s)" % (S.render(tagged([1.0, 0.0, 1.0])), S.KEYFNS[4].src)})
    finally:
        w.close()
    return acc


def run(tier, seed, t0):
    bins = runner.build("rel")
    accs = runner.shard_map(shard, (tier, seed, bins["jv-worker"]))
    acc = runner.Acc()
    for a in accs:
        acc.merge(a)
    return runner.finish(
        PROP, tier, seed, "exploration", acc, t0,
        rule="arrays of length 0..3 over an 11-element mixed alphabet (exhaustive up to 2, sampled at 3 in quick) and "
             "random arrays of length 4..8 (numbers with duplicates, strings, tagged objects, mixed) x the functions "
             "named by the property with key / predicate / fold / map functions from a pool defined twice (Jsonnet "
             "source + Python callable: identity, negate, mod 2, constant, field projection, partial, type-changing); "
             "set algebra for every pair of subsets (size <= 4) of a 5-element universe under 3 key functions; wrong-"
             "type arguments. distinct_nontrivial = distinct calls whose value / error-ness equalled the reference "
             "definition and passed the law checks",
        assumptions=["mon/ref/stdlib_ref.py ports the documented definitions; it abstains for non-set arguments of set "
                     "functions, folds over strings, fractional ranges and similar undocumented corners"],
        min_events=5000)


def replay(path):
    w = json.load(open(path))["witness"]
    wk = runner.Worker(runner.build("rel")["jv-worker"])
    print(json.dumps({"call": w["call"], "observed": wk.call({"op": "eval", "code": w["call"]}), "expected": w["expected"]},
                     indent=1, default=str)[:3000])
    wk.close()
    return 0
