"""C17 - source text is never lost and reported positions are accurate.

Observed: lexer token ranges and texts, the syntax tree's text, every span of the dumped
Expr (both evaluator parsers), rendered error traces, syntax-error locations and trace
events for programs with a construct planted at a known (line, column).
"""
import json
import os
import re

from .. import runner, tokseq, fmtlib
from ..common import outcome, panic_sig

PROP = "C17"

KEYWORD_SPANS = {"ErrorStmt": ("error",), "IfCond": ("if",), "CompIf": ("if",),
                 "ImportKw": ("import", "importstr", "importbin")}


def balanced(s):
    depth = 0
    for ch in s:
        if ch in "([{":
            depth += 1
        elif ch in ")]}":
            depth -= 1
            if depth < 0:
                return False
    return depth == 0


def check_spans(acc, text, parser, spans):
    raw = text.encode("utf-8")
    n = len(raw)
    for kind, s, e, hint in spans:
        acc.inc("spans_checked")
        acc.add("span_kinds", kind)
        bad = None
        if not (0 <= s <= e <= n):
            bad = "out-of-bounds"
        else:
            try:
                t = raw[s:e].decode("utf-8")
                raw[:s].decode("utf-8")
            except UnicodeDecodeError:
                bad = "not-on-char-boundary"
                t = ""
        if bad is None:
            if t == "" or t != t.strip():
                bad = "empty-or-padded"
            elif kind == "Var" and t != hint:
                bad = "wrong-text"
            elif kind in KEYWORD_SPANS and t not in KEYWORD_SPANS[kind]:
                bad = "wrong-text"
            elif kind == "FieldNameFixed" and not (t == hint or t[0] in "\"'@|"):
                bad = "wrong-text"
            elif kind == "FieldNameDyn" and not (t.startswith("[") and t.endswith("]")):
                bad = "wrong-text"
            elif kind == "ApplyArgs" and not (t.startswith("(") and balanced(t)):
                bad = "wrong-text"
            elif kind in ("AssertCond", "AssertMsg", "SliceStart", "SliceEnd", "SliceStep", "IndexPart") \
                    and "|||" not in t and not balanced(re.sub(r"'[^']*'|\"[^\"]*\"", "", t)):
                bad = "unbalanced"
        if bad:
            acc.violation({"oracle": "span", "what": bad, "span_kind": kind, "parser": parser},
                          {"text": text, "span": [kind, s, e, hint]})


# ----------------------------------------------------------------- planted positions
PADS_BEFORE = ["", "local pad = 1;\n", "// é comment\n", "/* 漢字\n 😀 */\n", "local s = 'é漢😀';\n\n\n", "# hash é\r\n",
               "local s = |||\n  é text\n|||;\n", "\n\n", "local t = 'x'; // ß\r\n\r\n"]
PADS_SAME_LINE_ASCII = ["", "  ", "local z = 2; ", "1 + ", "[0, 1, ", "\t"]
PADS_SAME_LINE_NONASCII = ["'é' + ", "/* 漢 */ ", "local s = '😀'; "]
PADS_AFTER = ["", "\n// é after\n", "\r\n\r\n"]


def planted_programs(rng, count):
    """yield (text, kind, line, col_or_None, closer) - col is the 1-based column of the construct,
    None when the text before it on its own line is not ASCII"""
    kinds = ["error", "assert", "undef", "trace", "syntax", "field", "eof", "eol-span"]
    for _ in range(count):
        kind = rng.choice(kinds)
        before = "".join(rng.choice(PADS_BEFORE) for _ in range(rng.randrange(0, 4)))
        ascii_line = rng.random() < 0.7
        same = rng.choice(PADS_SAME_LINE_ASCII if ascii_line else PADS_SAME_LINE_NONASCII)
        after = rng.choice(PADS_AFTER)
        closer = ""
        if same.startswith("["):
            closer = "]"
        if kind == "error":
            construct = "error 'boom'"
        elif kind == "assert":
            # the reported frame points at the condition
            construct = "(assert 1 == 2 : 'm'; 3)"
        elif kind == "undef":
            construct = "undefinedvar"
        elif kind == "trace":
            construct = "std.trace('T', 1)"
        elif kind == "field":
            construct = "{a: 1}.nofield"
        elif kind == "eof":
            # input ends right after the last token (with or without a line end): the syntax error
            # belongs to the line of that token
            construct = "[1, 2,"
            closer = ""
            after = rng.choice(["", "\n", "\r\n"])
        elif kind == "eol-span":
            # a runtime frame whose span ends exactly at the end of its line
            construct = "error 'boom'"
            closer = ""
            after = rng.choice(["\n", "\r\n", "\r\n\r\n// c\r\n"])
            if same.startswith("["):
                same = "1 + "
        else:
            construct = "]"   # unexpected token
            if same.startswith("["):
                same, closer = "1 + ", ""   # inside an array the first `]` would be legal
        line_prefix = same
        text = before + line_prefix + construct + closer + after
        line = before.count("\n") + 1
        col = len(line_prefix) + 1 if ascii_line else None
        if kind == "assert":
            col = col + len("(assert ") if col is not None else None
        if kind == "field":
            col = col + len("{a: 1}.") if col is not None else None
        if kind == "trace":
            col = None   # trace events carry a line only
        if kind == "eof":
            col = None   # only the line is pinned for an error at the end of input
        yield text, kind, line, col


LOC_RE = re.compile(r":(\d+):(\d+)(?:-(\d+)(?::(\d+))?)?")


def check_position(acc, w, text, kind, line, col):
    acc.inc("evaluations")
    acc.inc("planted_" + kind)
    rec = w.call({"op": "eval", "code": text, "err_detail": True, "name": "prog.jsonnet"}, timeout=60)
    cls, pay = outcome(rec)
    wit = {"text": text, "kind": kind, "expected_line": line, "expected_col": col}
    if cls in ("timeout", "harness", "crash", "panic"):
        if cls == "panic":
            f, m = panic_sig(pay)
            acc.violation({"oracle": "panic", "site": f, "msg": m}, wit)
        else:
            acc.inconclusive.append({"case": wit, "why": cls})
        return
    got_line = got_col = None
    if kind == "trace":
        tr = rec.get("traces") or []
        if not tr:
            acc.violation({"oracle": "position", "what": "trace-missing", "construct": kind}, dict(wit, observed=rec))
            return
        got_line = tr[0][2]
    else:
        if cls != "err":
            acc.violation({"oracle": "position", "what": "no-error", "construct": kind}, dict(wit, observed=pay))
            return
        # the rendered text is what the user reads: first location in it
        lines = pay["text"].split("\n")
        loc = None
        for ln in lines[1:]:
            m = LOC_RE.search(ln)
            if m:
                loc = m
                break
        if loc is None:
            acc.violation({"oracle": "position", "what": "no-location", "construct": kind}, dict(wit, observed=pay["text"]))
            return
        got_line, got_col = int(loc.group(1)), int(loc.group(2))
        # the end of the reported range must not lie before its start
        if loc.group(3) is not None:
            if loc.group(4) is not None:
                eline, ecol = int(loc.group(3)), int(loc.group(4))
            else:
                eline, ecol = got_line, int(loc.group(3))
            if (eline, ecol) < (got_line, got_col) or eline > text.count("\n") + 1:
                acc.violation({"oracle": "position", "what": "range-end-before-start", "construct": kind,
                               "crlf": "\r\n" in text}, dict(wit, observed=pay["text"]))
                return
    wit["observed_line"], wit["observed_col"] = got_line, got_col
    nonascii_before = any(ord(c) > 127 for c in text[:text.find("\n" * 0) if False else len(text)])
    if got_line != line:
        acc.violation({"oracle": "position", "what": "wrong-line", "construct": kind,
                       "nonascii_in_file": any(ord(c) > 127 for c in text)}, wit)
        return
    if col is not None and got_col is not None and got_col != col:
        acc.violation({"oracle": "position", "what": "wrong-column", "construct": kind,
                       "nonascii_in_file": any(ord(c) > 127 for c in text)}, wit)
        return
    acc.add("distinct", runner.h64(text))


FRAME_RE = re.compile(r"^\s+(\S+?):(\d+):(\d+)(?:-(\d+)(?::(\d+))?)?:? ", re.M)


def two_file_case(acc, w, rng, root, seq):
    """an error raised inside an imported file: every frame must carry the line/column of its own
    file, also when byte offsets of frames in different files coincide"""
    import os
    lib_pad = "".join(rng.choice(["// lib comment\n", "\n", "/* é */\n", "local unused = 'xxxxxxxxxxxx';\n", "# h\r\n"])
                      for _ in range(rng.randrange(2, 7)))
    lib_same = rng.choice(["{ crash: ", "{ other: 1, crash: ", "local o = { crash: "])
    lib_tail = " }" if not lib_same.startswith("local") else " }; o"
    lib = lib_pad + lib_same + "error 'boom'" + lib_tail
    err_off = len((lib_pad + lib_same).encode("utf-8"))
    lib_line = lib_pad.count("\n") + 1
    lib_col = len(lib_same) + 1
    head = "local lib = import 'lib.libsonnet';\n"
    access = "lib."
    # make the offset of `crash` in main coincide with an offset of the error span in lib
    target = err_off + rng.choice([0, 0, len("error"), -len(access)])
    fill = target - len(head.encode()) - len(access) - 1
    if fill < 4:
        filler = ""
    else:
        k = rng.randrange(0, 3)
        filler = "//" + "f" * (fill - 2 - k) + "\n" * k if fill - 2 - k >= 0 else ""
    main = head + filler + "\n" + access + "crash"
    main_line = (head + filler + "\n").count("\n") + 1
    main_col = len(access) + 1
    d = os.path.join(root, "t%d" % seq)
    os.makedirs(d, exist_ok=True)
    with open(os.path.join(d, "lib.libsonnet"), "w", newline="") as f:
        f.write(lib)
    with open(os.path.join(d, "main.jsonnet"), "w", newline="") as f:
        f.write(main)
    acc.inc("evaluations")
    acc.inc("planted_two_file")
    rec = w.call({"op": "eval", "file": os.path.join(d, "main.jsonnet"), "err_detail": True}, timeout=60)
    cls, pay = outcome(rec)
    wit = {"lib": lib, "main": main, "expected": {"lib": [lib_line, lib_col], "main": [main_line, main_col]}}
    if cls != "err":
        acc.inconclusive.append({"case": wit, "why": "no error: %s" % cls})
        return
    frames = FRAME_RE.findall(pay["text"])
    wit["observed"] = pay["text"]
    seen = {"lib": False, "main": False}
    for path, line, col, e1, e2 in frames:
        which = "lib" if path.endswith("lib.libsonnet") else "main" if path.endswith("main.jsonnet") else None
        if which is None:
            continue
        want_line, want_col = wit["expected"][which]
        nlines = (lib if which == "lib" else main).count("\n") + 1
        if int(line) > nlines or int(line) < 1:
            acc.violation({"oracle": "position", "what": "line-outside-file", "construct": "two-file"}, wit)
            return
        if which == "lib" and not seen["lib"]:
            seen["lib"] = True
            if int(line) != want_line or (lib_same.isascii() and int(col) != want_col):
                acc.violation({"oracle": "position", "what": "wrong-position-in-imported-file", "construct": "two-file"}, wit)
                return
        if which == "main" and not seen["main"]:
            seen["main"] = True
            if int(line) != want_line or int(col) != want_col:
                acc.violation({"oracle": "position", "what": "wrong-position-in-importer", "construct": "two-file"}, wit)
                return
    if seen["lib"] and seen["main"]:
        acc.add("distinct", runner.h64(lib + main))
    else:
        acc.inc("two_file_frames_missing")


def cli_trace_cases(acc, cli, rng, root, count):
    """the executable's own reporting: `TRACE: file:line message` lines (the library's trace printer, which the worker
    replaces by its collector) and the location in the rendered error, for one- and two-file programs whose std.trace
    calls sit at the *same byte offsets* on different lines"""
    import subprocess
    pads = ["", "// é漢😀 comment", "/* c */", "local unused = 'ü';", "    ", "# x"]
    for k in range(count):
        d = os.path.join(root, "cli%d" % k)
        os.makedirs(d, exist_ok=True)
        eol = rng.choice(["\n", "\n", "\r\n"])
        # two prefixes of equal byte length with different numbers of lines
        la, lb = rng.sample(range(1, 9), 2)
        lines_a = [rng.choice(pads) for _ in range(la)]
        lines_b = [rng.choice(pads) for _ in range(lb)]
        pa = "".join(x + eol for x in lines_a)
        pb = "".join(x + eol for x in lines_b)
        na, nb = len(pa.encode()), len(pb.encode())
        if na < nb:
            pa += " " * (nb - na)
        else:
            pb += " " * (na - nb)
        helper = pb + "std.trace('H', 1)" + eol
        main = pa + "std.trace('M', 1) + (import 'helper.libsonnet') + std.trace('M2', 1) + error 'E'" + eol
        with open(os.path.join(d, "helper.libsonnet"), "w", newline="") as f:
            f.write(helper)
        with open(os.path.join(d, "main.jsonnet"), "w", newline="") as f:
            f.write(main)
        acc.inc("evaluations")
        acc.inc("cli_trace_runs")
        p = subprocess.run([cli["jrsonnet"], "main.jsonnet"], cwd=d, capture_output=True, text=True, timeout=60)
        want = [("main.jsonnet", la + 1, "M"), ("helper.libsonnet", lb + 1, "H"), ("main.jsonnet", la + 1, "M2")]
        got = re.findall(r"^TRACE: (\S+?):(\d+) (\S+)$", p.stderr, re.M)
        got = [(os.path.basename(a), int(b), c) for a, b, c in got]
        wit = {"main": main, "helper": helper, "stderr": p.stderr[-1500:], "expected_traces": want, "observed_traces": got}
        if p.returncode < 0 or "panicked" in p.stderr:
            acc.violation({"oracle": "crash", "where": "cli-trace"}, wit)
            continue
        if got != want:
            acc.violation({"oracle": "position", "what": "TRACE-line-of-executable", "construct": "two-file-trace"}, wit)
            continue
        m = re.search(r"main\.jsonnet:(\d+):", p.stderr)
        if m is None or int(m.group(1)) != la + 1:
            acc.violation({"oracle": "position", "what": "error-line-of-executable", "construct": "two-file-trace"}, wit)
            continue
        acc.inc("cli_trace_ok")
        acc.distinct("clitrace:%d:%d:%s" % (la, lb, eol))


def shard(idx, n, tier, seed, binary, cli=None):
    acc = runner.Acc()
    rng = runner.rng_for(seed, "c17", idx)
    w = runner.Worker(binary, timeout=120)
    try:
        maxlen = 4 if tier == "quick" else 5
        nr = (12000 if tier == "quick" else 200000) // n
        import itertools
        texts = itertools.chain(
            (" ".join(t) for t in tokseq.shard_exhaustive(maxlen, idx, n)),
            (" ".join(t) for t in tokseq.random_seqs(rng, nr, 5, 10)),
            tokseq.mutants(rng, nr), tokseq.hostile_texts(rng, nr),
            tokseq.VALID_PROGRAMS if idx == 0 else [])
        for text, r in tokseq.bulk(w, texts):
            acc.inc("evaluations")
            if "dead" in r:
                acc.inconclusive.append({"text": text[:200], "why": str(r)[:200]})
                continue
            acc.inc("tiling_checked")
            if not r["tiling"]:
                toks = w.call({"op": "lex", "code": text}).get("tokens")
                acc.violation({"oracle": "lexer-tiling"}, {"text": text, "tokens": toks})
            if r["rowan"] >= 0:
                acc.inc("lossless_checked")
                if not r["lossless"]:
                    d = w.call({"op": "parse", "code": text})
                    acc.violation({"oracle": "syntax-tree-lossless"}, {"text": text, "tree_text": d.get("rowan", {}).get("text")})
            if r["tiling"] and r["lossless"]:
                acc.add("distinct", runner.h64(text))
        # spans of valid programs, both parsers
        corpus = fmtlib.corpus()
        progs = list(runner.chunks(corpus, idx, n))
        for t in list(progs):
            toks = w.call({"op": "lex", "code": t}).get("tokens", [])
            for d, _ in fmtlib.decorate(t, toks, rng, 4):
                progs.append(d)
            progs.append("/* é漢😀 */ " + t.replace("\n", "\r\n"))
        for t in progs:
            acc.inc("evaluations")
            d = w.call({"op": "parse", "code": t, "spans": True}, timeout=60)
            for parser in ("ir", "peg"):
                if "spans" in d.get(parser, {}):
                    acc.inc("span_programs")
                    check_spans(acc, t, parser, d[parser]["spans"])
        # planted positions
        for text, kind, line, col in planted_programs(rng, (2500 if tier == "quick" else 40000) // n):
            check_position(acc, w, text, kind, line, col)
        import tempfile
        import shutil
        root = tempfile.mkdtemp(prefix="c17-")
        try:
            for k in range((400 if tier == "quick" else 6000) // n):
                two_file_case(acc, w, rng, root, k)
            if cli:
                cli_trace_cases(acc, cli, rng, root, (320 if tier == "quick" else 3200) // n)
        finally:
            shutil.rmtree(root, ignore_errors=True)
        if idx == 0:
            acc.sample({"planted": "// é comment\nlocal z = 2; error 'boom'", "expected": [2, 14]})
    finally:
        w.close()
    return acc


def run(tier, seed, t0):
    bins = runner.build("rel")
    cli = runner.build_cli()
    accs = runner.shard_map(shard, (tier, seed, bins["jv-worker"], cli))
    acc = runner.Acc()
    for a in accs:
        acc.merge(a)
    return runner.finish(
        PROP, tier, seed, "exploration", acc, t0,
        rule="tiling / losslessness: all token sequences up to length 4/5, random sequences, mutants and "
             "hostile raw texts (valid or not); spans: corpus programs, comment-decorated and CRLF/non-ASCII "
             "prefixed variants through both evaluator parsers; positions: programs with an error, assert, "
             "undefined variable, missing field, std.trace or stray token planted at a known line/column "
             "behind random ASCII / multi-byte / CRLF padding; the executable's own `TRACE:` lines and error location for "
             "two-file programs whose std.trace calls sit at the same byte offsets on different lines. distinct_nontrivial = distinct texts whose "
             "tokens tiled the input and whose tree reproduced it, plus distinct planted programs reported "
             "at the right place",
        assumptions=["the first location of the rendered trace is the innermost frame = the offending construct",
                     "columns are 1-based and compared only when the text before the construct on its line is ASCII"],
        min_events=10000)


def replay(path):
    w = json.load(open(path))["witness"]
    wk = runner.Worker(runner.build("rel")["jv-worker"])
    print(json.dumps(wk.call({"op": "eval", "code": w["text"], "err_detail": True}), indent=1)[:2500])
    wk.close()
    return 0
