"""C01, experimental-syntax clause: "an experimental-syntax program gives the result of its
documented desugaring".

Runs on a worker built with the features exp-destruct, exp-null-coaelse and exp-object-iteration
(harness feature `exp`).  For every documented sugar (docs/features.adoc) a family of programs is
generated in two spellings - with the sugar, and with the desugaring the documentation gives -
over pools of object / array / scalar operands that include lazily failing members, hidden fields
and nulls.  Oracles:
  (1) sugared and desugared spelling give the same outcome on the experimental build (same JSON
      value, or both fail);
  (2) the desugared (standard) program gives the same outcome on the standard build - switching
      the features on does not change standard programs;
  (3) no panic / crash on either.
Where the documentation does not define the outcome (array pattern against an array of another
length, optional chaining continued by a plain index) the pair is run for (3) only.
"""
import itertools
import json

from .. import runner
from ..common import outcome, strict_json, deep_equal, panic_sig

# (source, set of all field names or None when the value is not an object / fails, failing object assert)
OBJ_POOL = [
    ("{a: 1}", {"a"}, False), ("{a: 1, b: 'x'}", {"a", "b"}, False), ("{a: 1, b: 2, c: [3]}", {"a", "b", "c"}, False),
    ("{a: {b: {c: 5}}, b: null}", {"a", "b"}, False), ("{a: {b: {c: 5}}}", {"a"}, False), ("{a: 1, b:: 2}", {"a", "b"}, False),
    ("{a:: 1, b: 2}", {"a", "b"}, False), ("{a: error 'lazy-a', b: 2}", {"a", "b"}, False), ("{a: 1, b: error 'lazy-b'}", {"a", "b"}, False),
    ("{}", set(), False), ("{a: null}", {"a"}, False), ("{b: 2}", {"b"}, False), ("{a: [1, 2, 3], b: {a: 7}}", {"a", "b"}, False),
    ("{a: [1, 2, 3]}", {"a"}, False), ("({a: 1} + {b: 2, a+: 10})", {"a", "b"}, False), ("{a: 1, b: 2, c: 3, d: 4}", {"a", "b", "c", "d"}, False),
    ("{[k]: k + '!' for k in ['a', 'b']}", {"a", "b"}, False), ("{a: 1, assert self.a == 1}", {"a"}, False),
    ("{a: 1, b: 2, assert false : 'obj-assert'}", {"a", "b"}, True), ("(error 'whole-object')", None, False), ("null", None, False),
    ("[1, 2]", None, False), ("'str'", None, False),
]
OBJS = [o[0] for o in OBJ_POOL]
OBJ_INFO = {o[0]: o for o in OBJ_POOL}


def fits(O, required=(), optional=(), rest=False):
    """does the documentation define the outcome of matching this pattern against O?  It does when O is not an
    object (both spellings must fail) or when O has exactly the fields the pattern names (all required ones
    present; nothing else unless the pattern has a rest part).  What happens to an object of another shape
    (silently ignore extra fields? fail lazily or eagerly on a missing one?) is not documented."""
    _, fields, failing_assert = OBJ_INFO[O]
    if fields is None:
        return True
    if failing_assert and optional:
        return False
    if not set(required) <= fields:
        return False
    return rest or fields <= set(required) | set(optional)


ARRS = [
    "[]", "[1]", "[1, 2]", "[1, 2, 3]", "[1, 2, 3, 4]", "['a', 'b', 'c']", "[error 'e0', 2, 3]", "[1, error 'e1', 3]", "[1, 2, error 'e2']",
    "[[1, 2], {a: 1}, null]", "std.range(1, 5)", "std.map(function(x) x * 2, [1, 2, 3])", "[1, 2, 3][1:]", "(error 'whole-array')", "null",
    "{a: 1}", "'abc'",
]
SCALARS = ["null", "1", "0", "false", "true", "'x'", "''", "{}", "[]", "{b: 1}", "(error 'E')", "[null]"]


def pairs():
    """(family, sugared, desugared, defined) - `defined` False: documentation does not fix the outcome"""
    out = []
    for O in OBJS:
        isobj = OBJ_INFO[O][1] is not None
        out.append(("obj-rename", "local {a: x} = %s; [x]" % O, "local o_ = %s; local x = o_.a; [x]" % O, fits(O, "a")))
        out.append(("obj-short", "local {a} = %s; {r: a}" % O, "local o_ = %s; local a = o_.a; {r: a}" % O, fits(O, "a")))
        out.append(("obj-two", "local {a, b: y} = %s; [a, y]" % O, "local o_ = %s; local a = o_.a, y = o_.b; [a, y]" % O, fits(O, "ab")))
        out.append(("obj-unused", "local {a, b} = %s; a" % O, "local o_ = %s; local a = o_.a, b = o_.b; a" % O, fits(O, "ab")))
        out.append(("obj-unused-all", "local {a, b} = %s; 7" % O, "local o_ = %s; local a = o_.a, b = o_.b; 7" % O, fits(O, "ab")))
        out.append(("obj-rest-drop", "local {a, ...} = %s; [a]" % O, "local o_ = %s; local a = o_.a; [a]" % O, fits(O, "a", rest=True)))
        out.append(("obj-rest", "local {a, ...r} = %s; [a, r]" % O,
                    "local o_ = %s; local a = o_.a, r = {[k]: o_[k] for k in std.objectFields(o_) if k != 'a'}; [a, r]" % O, fits(O, "a", rest=True)))
        out.append(("obj-rest-only", "local {a, ...r} = %s; std.objectFields(r)" % O,
                    "local o_ = %s; local a = o_.a; [k for k in std.objectFields(o_) if k != 'a']" % O, fits(O, "a", rest=True)))
        out.append(("obj-rest-lazy", "local {a, ...r} = %s; [a]" % O, "local o_ = %s; local a = o_.a; [a]" % O, fits(O, "a", rest=True)))
        out.append(("obj-rest-two", "local {a, b, ...r} = %s; [a, b, r]" % O,
                    "local o_ = %s; local a = o_.a, b = o_.b, r = {[k]: o_[k] for k in std.objectFields(o_) if k != 'a' && k != 'b'}; [a, b, r]" % O,
                    fits(O, "ab", rest=True)))
        for D in ("9", "error 'default-used'", "[a2]"):
            out.append(("obj-default", "local a2 = 5; local {a = %s} = %s; [a]" % (D, O),
                        "local a2 = 5; local o_ = %s; local a = if std.objectHasAll(o_, 'a') then o_.a else %s; [a]" % (O, D), fits(O, "", "a")))
        out.append(("obj-default-rest", "local {zz = 1, ...r} = %s; [zz, std.objectFields(r)]" % O,
                    "local o_ = %s; local zz = if std.objectHasAll(o_, 'zz') then o_.zz else 1; [zz, std.objectFields(o_)]" % O, fits(O, "", ["zz"], rest=True)))
        out.append(("obj-nested", "local {a: {b: {c: d}}} = %s; d" % O, "local o_ = %s; local d = o_.a.b.c; d" % O, O in ("{a: {b: {c: 5}}}",) or not isobj))
        out.append(("obj-nested-arr", "local {a: [x, ...t]} = %s; [x, t]" % O, "local o_ = %s; local x = o_.a[0], t = o_.a[1:]; [x, t]" % O,
                    O in ("{a: [1, 2, 3]}",) or not isobj))
        out.append(("fn-param-obj", "local f({a, b}, k=2) = [a, b, k]; f(%s)" % O,
                    "local f(p_, k=2) = local a = p_.a, b = p_.b; [a, b, k]; f(%s)" % O, fits(O, "ab")))
        out.append(("fn-param-obj-lazy", "local f({a, b}) = 1; f(%s)" % O, "local f(p_) = local a = p_.a, b = p_.b; 1; f(%s)" % O, fits(O, "ab")))
        # iteration over an object; for a non-object operand the comprehension is the standard one
        out.append(("objiter-arr", "[i for i in %s]" % O, "local o_ = %s; [[k, o_[k]] for k in std.objectFields(o_)]" % O, isobj))
        out.append(("objiter-keys", "[i[0] for i in %s]" % O, "local o_ = %s; [k for k in std.objectFields(o_)]" % O, isobj))
        out.append(("objiter-obj", "{[i[0] + '!']: i[1] for i in %s}" % O, "local o_ = %s; {[k + '!']: o_[k] for k in std.objectFields(o_)}" % O, isobj))
        out.append(("objiter-destruct", "{[k + '!']: [v] for [k, v] in %s}" % O, "local o_ = %s; {[k + '!']: [o_[k]] for k in std.objectFields(o_)}" % O, isobj))
        out.append(("objiter-filter", "[kv[0] for kv in %s if kv[0] != 'a']" % O, "local o_ = %s; [k for k in std.objectFields(o_) if k != 'a']" % O, isobj))
        out.append(("objiter-nested", "[[x, kv[0]] for x in [1, 2] for kv in %s]" % O, "local o_ = %s; [[x, k] for x in [1, 2] for k in std.objectFields(o_)]" % O, isobj))
    for A in ARRS:
        n_known = {"[]": 0, "[1]": 1, "[1, 2]": 2, "[1, 2, 3]": 3, "[1, 2, 3, 4]": 4, "['a', 'b', 'c']": 3, "[error 'e0', 2, 3]": 3, "[1, error 'e1', 3]": 3,
                   "[1, 2, error 'e2']": 3, "[[1, 2], {a: 1}, null]": 3, "std.range(1, 5)": 5, "std.map(function(x) x * 2, [1, 2, 3])": 3, "[1, 2, 3][1:]": 2}.get(A)
        if A in ("'abc'", "{a: 1}"):
            n_known = -1          # not an array: the documentation only describes array patterns against arrays
        exact3 = n_known == 3 or n_known is None
        out.append(("arr-exact", "local [x, y, z] = %s; [z, x]" % A, "local a_ = %s; local x = a_[0], y = a_[1], z = a_[2]; [z, x]" % A, exact3))
        out.append(("arr-exact-unused", "local [x, y, z] = %s; [y]" % A, "local a_ = %s; local x = a_[0], y = a_[1], z = a_[2]; [y]" % A, exact3))
        out.append(("arr-skip", "local [?, y, z] = %s; [y, z]" % A, "local a_ = %s; local y = a_[1], z = a_[2]; [y, z]" % A, exact3))
        ge1 = n_known is None or n_known >= 1
        ge2 = n_known is None or n_known >= 2
        out.append(("arr-rest-end", "local [x, ...r] = %s; [x, r]" % A, "local a_ = %s; local x = a_[0], r = a_[1:]; [x, r]" % A, ge1))
        out.append(("arr-rest-drop", "local [x, ...] = %s; [x]" % A, "local a_ = %s; local x = a_[0]; [x]" % A, ge1))
        out.append(("arr-rest-start", "local [...r, x] = %s; [r, x]" % A,
                    "local a_ = %s; local x = a_[std.length(a_) - 1], r = a_[:std.length(a_) - 1]; [r, x]" % A, ge1))
        out.append(("arr-rest-mid", "local [x, ...r, y] = %s; [x, r, y]" % A,
                    "local a_ = %s; local x = a_[0], y = a_[std.length(a_) - 1], r = a_[1:std.length(a_) - 1]; [x, r, y]" % A, ge2))
        out.append(("arr-rest-len", "local [x, ...r, y] = %s; std.length(r)" % A, "local a_ = %s; std.length(a_) - 2" % A, ge2))
        out.append(("fn-param-arr", "local f([x, y], z=0) = [y, x, z]; f(%s)" % A, "local f(p_, z=0) = local x = p_[0], y = p_[1]; [y, x, z]; f(%s)" % A,
                    n_known == 2 or n_known is None))
        out.append(("comp-destruct", "[[b, a] for [a, b] in [%s, [8, 9]]]" % A, "[[p_[1], p_[0]] for p_ in [%s, [8, 9]]]" % A, n_known == 2 or n_known is None))
    out.append(("doc-recursive", "local {a: [{b: {c: d}}]} = {a: [{b: {c: 5}}]}; d == 5", "true", True))
    out.append(("doc-mutual", "local {a, b, c} = {a: y, b: c, c: x}, {x, y, z} = {x: a, y: 2, z: b}; z", "2", True))
    out.append(("doc-fn", "local myFun({a, b, c}) = a + b + c; myFun({a: 1, b: 2, c: 3})", "6", True))
    out.append(("doc-objiter", "{[i[0] + '!']: i[1] + '!' for i in {a: 1, b: 2, c: 3}}", "{'a!': '1!', 'b!': '2!', 'c!': '3!'}", True))
    out.append(("doc-objiter-destruct", "{[k + '!']: v + '!' for [k, v] in {a: 1, b: 2, c: 3}}", "{'a!': '1!', 'b!': '2!', 'c!': '3!'}", True))
    out.append(("doc-default", "local {a = 1} = {}; a == 1", "true", True))
    out.append(("doc-skip", "local [?, b, c] = ['a', 'b', 'c']; b + c", "'bc'", True))
    for A, B in itertools.product(SCALARS, repeat=2):
        out.append(("nullco", "%s ?? %s" % (A, B), "local a_ = %s; if a_ == null then %s else a_" % (A, B), True))
    for A in SCALARS + OBJS[:8] + ["{b: null}", "{b:: 3}", "{b: {c: 1}}", "{b: {c: null}}", "{b: error 'lazy-b'}"]:
        out.append(("nullidx-dot", "local v = %s; [v?.b]" % A, "local a_ = %s; [if a_ != null then std.get(a_, 'b', null) else null]" % A, True))
        out.append(("nullidx-bracket", "local v = %s; [v?.['b']]" % A, "local a_ = %s; [if a_ != null then std.get(a_, 'b', null) else null]" % A, True))
        out.append(("nullidx-chain", "local v = %s; [v?.b?.c]" % A,
                    "local a_ = %s; local b_ = if a_ != null then std.get(a_, 'b', null) else null; [if b_ != null then std.get(b_, 'c', null) else null]" % A, True))
        out.append(("nullidx-co", "local v = %s; v?.b ?? 'dflt'" % A,
                    "local a_ = %s; local b_ = if a_ != null then std.get(a_, 'b', null) else null; if b_ == null then 'dflt' else b_" % A, True))
        out.append(("nullidx-tail", "local v = %s; [v?.b.c]" % A, "null", False))
    return out


def _obs(w, code):
    rec = w.call({"op": "eval", "code": code}, timeout=30)
    cls, pay = outcome(rec)
    if cls == "ok":
        return ("ok", strict_json(pay))
    if cls == "err":
        return ("error", pay.get("kind"), pay.get("msg", "")[:100])
    if cls == "panic":
        return ("panic", panic_sig(pay))
    if cls == "crash":
        return ("crash" if runner.classify_crash(rec) != "resource" else "resource", str(pay)[:200])
    return (cls, None)


def classify(fam, s, d):
    """discriminating features of a disagreement, for known-finding signatures"""
    if s[0] == "error" and d[0] == "ok" and "too many fields" in (s[2] or ""):
        return "extra-fields-rejected-by-object-pattern-without-rest"
    if s[0] == "error" and "is not defined: r" in (s[2] or "") and fam.startswith("obj-") and "rest" in fam:
        return "object-rest-not-bound"
    if s[0] == "error" and d[0] == "ok":
        return "sugar-fails:" + str(s[1])
    if s[0] == "ok" and d[0] == "error":
        return "desugaring-fails:" + str(d[1])
    return "values-differ"


def shard(idx, n, tier, seed, bins):
    acc = runner.Acc()
    wx = runner.Worker(bins["exp"], timeout=30)
    ws = runner.Worker(bins["rel"], timeout=30)
    try:
        for i, (fam, sug, des, defined) in enumerate(pairs()):
            if i % n != idx:
                continue
            acc.inc("evaluations", 3)
            s = _obs(wx, sug)
            d = _obs(wx, des)
            d0 = _obs(ws, des)
            wit = {"family": fam, "sugared": sug, "desugared": des, "exp_build_sugared": s, "exp_build_desugared": d, "std_build_desugared": d0}
            bad = False
            for which, o in (("sugared", s), ("desugared", d), ("desugared-std-build", d0)):
                if o[0] in ("panic", "crash"):
                    acc.violation({"oracle": "exp-crash", "family": fam, "which": which, "what": str(o[1])[:120]}, wit)
                    bad = True
                elif o[0] in ("timeout", "harness", "resource"):
                    acc.inconclusive.append({"why": o[0], "case": wit})
                    bad = True
            if bad:
                continue
            same_std = d[0] == d0[0] and (d[0] != "ok" or deep_equal(d[1], d0[1]))
            if not same_std:
                acc.violation({"oracle": "exp-build-changes-standard-program", "family": fam}, wit)
                continue
            if not defined:
                acc.inc("exp_undefined_by_documentation")
                continue
            same = s[0] == d[0] and (s[0] != "ok" or deep_equal(s[1], d[1]))
            if same:
                acc.distinct("x:" + sug)
                acc.add("exp_families", fam)
                acc.inc("exp_pairs_agree_value" if s[0] == "ok" else "exp_pairs_agree_error")
            else:
                acc.violation({"oracle": "exp-desugar-differs", "family": fam, "class": classify(fam, s, d)}, wit)
        if idx == 0:
            acc.sample({"experimental": "local [x, ...r, y] = [1, 2, 3, 4]; [x, r, y]",
                        "desugared": "local a_ = [1, 2, 3, 4]; local x = a_[0], y = a_[3], r = a_[1:3]; [x, r, y]"})
    finally:
        wx.close()
        ws.close()
    return acc


def run_part(acc, tier, seed):
    try:
        bx = runner.build("rel", features="exp")["jv-worker"]
    except runner.Broken as e:
        acc.inconclusive.append({"why": "experimental-feature build unavailable: %s" % str(e)[:300]})
        return
    bins = {"exp": bx, "rel": runner.build("rel")["jv-worker"]}
    for a in runner.shard_map(shard, (tier, seed, bins)):
        acc.merge(a)


def replay_pair(w):
    bx = runner.build("rel", features="exp")["jv-worker"]
    wk = runner.Worker(bx)
    print(json.dumps({"sugared": w["sugared"], "observed": wk.call({"op": "eval", "code": w["sugared"]}),
                      "desugared": w["desugared"], "observed_desugared": wk.call({"op": "eval", "code": w["desugared"]})}, indent=1, default=str)[:4000])
    wk.close()
    return 0
