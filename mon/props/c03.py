"""C03 - evaluation is call-by-need: nothing unneeded runs, nothing shared runs twice.

Observed: the multiset of std.trace label events per evaluation (collecting TracePrinter in
the worker) plus the outcome.  Workload: programs in which every sub-expression is wrapped
in std.trace("L<k>", e) with a distinct label and bombs (error, failing assert, divergence)
are planted in positions the reference marks unneeded; sharing shapes on purpose.
Oracle (exactly the statement): outcome == reference outcome (every planted bomb stayed
unobserved) and, when the outcome is a value, for every label observed <= reference, where
the reference memoises locals, arguments, array elements and object fields per (object,
field, start layer).  observed < reference is information, not a violation.
"""
import collections
import json

from .. import runner
from ..common import outcome, strict_json, deep_equal, panic_sig
from ..gen import prog
from ..ref import interp, jast
from . import c01

PROP = "C03"
N, S, V = prog.N, prog.S, prog.V


def T(label, e):
    return ("apply", ("index", ("var", "std"), ("str", "trace"), "dot"), [S(label), e], [], False)


def F(name, e, vis=":", plus=False):
    return ("field", ("fixed", name), plus, vis, None, e)


def IDX(e, n):
    return ("index", e, S(n), "dot")


SELF, SUPER = ("lit", "self"), ("lit", "super")
BOMBS = [("error", S("BOMB")), ("assert", ("lit", "false"), S("BOMB"), N(1)),
         ("local", [("bindfn", "lp", [("x", None)], ("apply", V("lp"), [("bin", "+", V("x"), N(1))], [], False))],
          ("apply", V("lp"), [N(0)], [], False))]


def add(*es):
    acc = es[0]
    for e in es[1:]:
        acc = ("bin", "+", acc, e)
    return acc


def sharing_shapes():
    out = []
    for n in (1, 2, 3, 5):
        out.append(("local-used-%d" % n, ("local", [("bind", "x", T("X", N(1)))], add(*[V("x")] * n))))
        out.append(("arg-used-%d" % n, ("apply", ("fn", [("a", None)], add(*[V("a")] * n)), [T("A", N(1))], [], False)))
        out.append(("named-arg-used-%d" % n, ("apply", ("fn", [("a", None), ("b", N(0))], add(*[V("a")] * n)), [], [("a", T("A", N(1)))], False)))
        out.append(("default-used-%d" % n, ("apply", ("fn", [("a", T("D", N(1)))], add(*[V("a")] * n)), [], [], False)))
        out.append(("elem-read-%d" % n, ("local", [("bind", "a", ("arr", [T("E0", N(1)), T("E1", N(2))]))],
                                         add(*[("index", V("a"), N(0))] * n))))
        out.append(("comp-elem-read-%d" % n, ("local", [("bind", "a", ("arrcomp", T("C", V("x")), [("for", "x", ("arr", [N(1), N(2)]))]))],
                                              add(*[("index", V("a"), N(1))] * n))))
        out.append(("field-read-%d" % n, ("local", [("bind", "o", ("obj", [F("f", T("F", N(1)))]))], add(*[IDX(V("o"), "f")] * n))))
        out.append(("self-read-%d" % n, IDX(("obj", [F("f", T("F", N(1))), F("g", add(*[IDX(SELF, "f")] * n))]), "g")))
        out.append(("self-and-outside-%d" % n, ("local", [("bind", "o", ("obj", [F("f", T("F", N(1))), F("g", add(*[IDX(SELF, "f")] * n))]))],
                                                add(IDX(V("o"), "g"), IDX(V("o"), "f"), IDX(V("o"), "g")))))
        out.append(("super-read-one-layer-%d" % n, IDX(("bin", "+", ("obj", [F("f", T("F", N(1)))]),
                                                        ("obj", [F("g", add(*[IDX(SUPER, "f")] * n))])), "g")))
        out.append(("super-read-two-layers-%d" % n,
                    ("local", [("bind", "o", add(("obj", [F("f", T("F", N(1)))]), ("obj", [F("g", add(*[IDX(SUPER, "f")] * n))]),
                                                 ("obj", [F("h", add(*[IDX(SUPER, "f")] * n))])))],
                     add(IDX(V("o"), "g"), IDX(V("o"), "h"), IDX(V("o"), "f")))))
        out.append(("plus-field-%d" % n, ("local", [("bind", "o", ("bin", "+", ("obj", [F("f", T("F", N(1)))]), ("obj", [F("f", T("G", N(2)), plus=True)])))],
                                          add(*[IDX(V("o"), "f")] * n))))
        out.append(("object-local-%d" % n, ("local", [("bind", "o", ("obj", [("olocal", ("bind", "l", T("OL", N(1)))), F("f", add(*[V("l")] * n))]))],
                                            add(IDX(V("o"), "f"), IDX(V("o"), "f")))))
        out.append(("manifest-twice-%d" % n, ("local", [("bind", "o", ("obj", [F("f", T("F", N(1)))]))], ("arr", [V("o")] * n))))
        out.append(("inherit-copies-%d" % n, ("local", [("bind", "b", ("obj", [F("f", T("F", N(1)))]))],
                                              ("arr", [("bin", "+", V("b"), ("obj", [F("k", N(i))])) for i in range(n)]))))
    # lazily mapped arrays consumed several times, through different consumers
    mk = lambda: prog.STD("makeArray", N(2), ("fn", [("i", None)], T("MK", V("i"))))
    mp = lambda: prog.STD("map", ("fn", [("x", None)], T("MP", V("x"))), ("arr", [N(1), N(2)]))
    mi = lambda: prog.STD("mapWithIndex", ("fn", [("i", None), ("x", None)], T("MI", V("x"))), ("arr", [N(1)]))
    keep = ("fn", [("x", None)], ("lit", "true"))
    for nm, mkarr in (("makeArray", mk), ("map", mp), ("mapWithIndex", mi)):
        consumers = {
            "index-twice": lambda m: add(("index", m, N(0)), ("index", m, N(0))),
            "comp-twice": lambda m: ("arr", [("arrcomp", V("x"), [("for", "x", m)]), ("arrcomp", V("x"), [("for", "x", m)])]),
            "comp-then-index": lambda m: ("arr", [("arrcomp", V("x"), [("for", "x", m)]), ("index", m, N(0))]),
            "concat-self": lambda m: ("bin", "+", m, m),
            "concat-then-manifest": lambda m: ("arr", [("bin", "+", m, ("arr", [N(9)])), m]),
            "filter-then-manifest": lambda m: ("arr", [prog.STD("filter", keep, m), m]),
            "slice-then-manifest": lambda m: ("arr", [("slice", m, N(0), None, None), m]),
            "manifest-thrice": lambda m: ("arr", [m, m, m]),
            "equality": lambda m: ("arr", [("bin", "==", m, ("arr", [N(0), N(1)])), m]),
        }
        for cn, cf in consumers.items():
            out.append(("mapped-%s-%s-1" % (nm, cn), ("local", [("bind", "m", mkarr())], cf(V("m")))))
    # object-level locals shared by fields and asserts of the same object
    out.append(("object-local-assert-and-field-1", IDX(("obj", [("olocal", ("bind", "l", T("OL", N(1)))), ("oassert", ("bin", ">", V("l"), N(0)), None), F("f", V("l")), F("g", V("l"))]), "f")))
    out.append(("object-local-two-asserts-1", ("obj", [("olocal", ("bind", "l", T("OL", N(1)))), ("oassert", ("bin", ">", V("l"), N(0)), None), ("oassert", ("bin", "<", V("l"), N(5)), None), F("f", V("l"))])))
    out.append(("object-local-fields-manifest-1", ("obj", [("olocal", ("bind", "l", T("OL", N(1)))), F("f", V("l")), F("g", V("l")), F("h", add(V("l"), V("l")))])))
    out.append(("object-local-method-1", ("local", [("bind", "o", ("obj", [("olocal", ("bind", "l", T("OL", N(1)))), ("field", ("fixed", "m"), False, ":", [("x", None)], add(V("l"), V("x"))), F("f", V("l"))]))],
                                          add(("apply", IDX(V("o"), "m"), [N(1)], [], False), ("apply", IDX(V("o"), "m"), [N(2)], [], False), IDX(V("o"), "f")))))
    # one object literal with object-level locals used as a layer of two objects: the local is evaluated once per
    # object it is part of, in whatever order the fields of the two objects are read
    mixin = lambda: ("obj", [("olocal", ("bind", "l", T("OL", N(1)))), F("a", V("l")), F("b", add(V("l"), N(1))), F("c", add(V("l"), V("l")))])
    reads = {
        "interleaved": [("o1", "a"), ("o2", "a"), ("o1", "b"), ("o2", "b")],
        "interleaved-3": [("o1", "a"), ("o2", "b"), ("o1", "c"), ("o2", "a"), ("o1", "b"), ("o2", "c")],
        "grouped": [("o1", "a"), ("o1", "b"), ("o2", "a"), ("o2", "b")],
        "same-field": [("o1", "a"), ("o2", "a"), ("o1", "a"), ("o2", "a")],
    }
    for rn, rs in reads.items():
        out.append(("shared-literal-value-%s-1" % rn,
                    ("local", [("bind", "m", mixin())],
                     ("local", [("bind", "o1", ("bin", "+", ("obj", [F("p", N(1))]), V("m"))), ("bind", "o2", ("bin", "+", ("obj", [F("p", N(2))]), V("m")))],
                      ("arr", [IDX(V(o), f) for o, f in rs])))))
        out.append(("shared-literal-function-%s-1" % rn,
                    ("local", [("bind", "mk", ("fn", [("base", None)], ("objext", V("base"), mixin())))],
                     ("local", [("bind", "o1", ("apply", V("mk"), [("obj", [F("p", N(1))])], [], False)),
                                ("bind", "o2", ("apply", V("mk"), [("obj", [F("p", N(2))])], [], False))],
                      ("arr", [IDX(V(o), f) for o, f in rs])))))
        out.append(("shared-literal-three-objects-%s-1" % rn,
                    ("local", [("bind", "m", mixin())],
                     ("local", [("bind", "o1", ("bin", "+", ("obj", [F("p", N(1))]), V("m"))), ("bind", "o2", ("bin", "+", V("m"), ("obj", [F("q", N(2))]))),
                                ("bind", "o3", V("m"))],
                      ("arr", [IDX(V(o), f) for o, f in rs] + [IDX(V("o3"), "a"), IDX(V("o1"), "c"), IDX(V("o3"), "b")])))))
    # the same literal as a layer of many objects: between two reads of fields of the first object, the fields of K other
    # objects built from the literal are read (a bounded or evicting cache of per-object bindings shows up here)
    for K in (9, 70, 150, 300):
        objs = ("arrcomp", ("bin", "+", ("obj", [F("p", V("i"))]), V("m")), [("for", "i", ("arr", [N(i) for i in range(K)]))])
        first = ("index", V("os"), N(0))
        out.append(("shared-literal-many-objects-%d-1" % K,
                    ("local", [("bind", "m", mixin())],
                     ("local", [("bind", "os", objs)],
                      ("arr", [IDX(first, "a"), ("arrcomp", IDX(V("o"), "a"), [("for", "o", V("os"))]), IDX(first, "b"),
                               ("arrcomp", IDX(V("o"), "c"), [("for", "o", V("os"))]), IDX(first, "c")])))))
        out.append(("shared-literal-many-objects-function-%d-1" % K,
                    ("local", [("bindfn", "mk", [("i", None)], ("objext", ("obj", [F("p", V("i"))]), mixin()))],
                     ("local", [("bind", "os", ("arrcomp", ("apply", V("mk"), [V("i")], [], False), [("for", "i", ("arr", [N(i) for i in range(K)]))]))],
                      ("arr", [IDX(first, "a"), ("arrcomp", IDX(V("o"), "b"), [("for", "o", V("os"))]), IDX(first, "b"), IDX(first, "c")])))))
    # unneeded positions, every bomb kind
    for i, b in enumerate(BOMBS):
        out.append(("unused-local-%d" % i, ("local", [("bind", "u", b)], N(1))))
        out.append(("unused-arg-%d" % i, ("apply", ("fn", [("a", None), ("b", None)], V("a")), [N(1), b], [], False)))
        out.append(("untaken-then-%d" % i, ("if", ("lit", "false"), b, N(2))))
        out.append(("untaken-else-%d" % i, ("if", ("lit", "true"), N(1), b)))
        out.append(("unread-elem-%d" % i, ("index", ("arr", [b, N(1)]), N(1))))
        out.append(("unread-field-%d" % i, IDX(("obj", [F("a", b), F("b", N(1))]), "b")))
        out.append(("hidden-field-manifest-%d" % i, ("obj", [F("a", b, "::"), F("b", N(1))])))
        # a field removed with std.objectRemoveKey can no longer be read: looking its name up, redefining it or extending it
        # must not run it
        rm = prog.STD("objectRemoveKey", ("obj", [F("a", b), F("b", N(1))]), S("a"))
        out.append(("removed-field-get-%d" % i, prog.STD("get", rm, S("a"), N(2))))
        out.append(("removed-field-has-%d" % i, ("arr", [prog.STD("objectHasAll", rm, S("a")), ("bin", "in", S("a"), rm), rm])))
        out.append(("removed-field-redefined-%d" % i, ("objext", rm, ("obj", [F("a", N(3))]))))
        out.append(("removed-field-plus-%d" % i, ("objext", rm, ("obj", [F("a", ("arr", [N(3)]), plus=True)]))))
        out.append(("removed-field-under-layer-%d" % i, IDX(("bin", "+", ("obj", [F("a", N(5))]), rm), "a")))
        out.append(("overridden-default-%d" % i, ("apply", ("fn", [("a", b)], V("a")), [N(1)], [], False)))
        out.append(("overridden-field-%d" % i, IDX(("bin", "+", ("obj", [F("a", b)]), ("obj", [F("a", N(1))])), "a")))
        out.append(("and-shortcircuit-%d" % i, ("bin", "&&", ("lit", "false"), b)))
        out.append(("or-shortcircuit-%d" % i, ("bin", "||", ("lit", "true"), b)))
        out.append(("length-of-array-%d" % i, prog.STD("length", ("arr", [b, b]))))
        out.append(("length-of-object-%d" % i, prog.STD("length", ("obj", [F("a", b)]))))
        out.append(("objectFields-%d" % i, prog.STD("objectFields", ("obj", [F("a", b)]))))
        out.append(("in-operator-%d" % i, ("bin", "in", S("a"), ("obj", [F("a", b)]))))
        out.append(("slice-unread-%d" % i, ("index", ("slice", ("arr", [b, N(1), N(2)]), N(1), None, None), N(0))))
        out.append(("concat-unread-%d" % i, ("index", ("bin", "+", ("arr", [b]), ("arr", [N(1)])), N(1))))
        out.append(("comprehension-unread-%d" % i, ("index", ("arrcomp", ("if", ("bin", "==", V("x"), N(0)), b, V("x")), [("for", "x", ("arr", [N(0), N(1)]))]), N(1))))
        out.append(("makeArray-unread-%d" % i, ("index", prog.STD("makeArray", N(2), ("fn", [("i", None)], ("if", ("bin", "==", V("i"), N(0)), b, V("i")))), N(1))))
        # elements / fields handed to library callbacks that do not use them
        one = ("fn", [("x", None)], N(1))
        yes = ("fn", [("x", None)], ("lit", "true"))
        out.append(("map-unused-elem-%d" % i, prog.STD("map", one, ("arr", [b, N(1)]))))
        out.append(("mapWithIndex-unused-elem-%d" % i, prog.STD("mapWithIndex", ("fn", [("i", None), ("x", None)], V("i")), ("arr", [b]))))
        out.append(("foldl-unused-elem-%d" % i, prog.STD("foldl", ("fn", [("a", None), ("x", None)], ("bin", "+", V("a"), N(1))), ("arr", [b, b]), N(0))))
        out.append(("foldr-unused-elem-%d" % i, prog.STD("foldr", ("fn", [("x", None), ("a", None)], ("bin", "+", V("a"), N(1))), ("arr", [b, b]), N(0))))
        out.append(("flatMap-unused-elem-%d" % i, prog.STD("length", prog.STD("flatMap", ("fn", [("x", None)], ("arr", [b, N(1)])), ("arr", [b, N(2)])))))
        out.append(("filterMap-unused-elem-%d" % i, prog.STD("filterMap", yes, one, ("arr", [b]))))
        out.append(("filter-unused-elem-%d" % i, prog.STD("length", prog.STD("filter", yes, ("arr", [b])))))
        out.append(("mapWithKey-unused-value-%d" % i, prog.STD("mapWithKey", ("fn", [("k", None), ("v", None)], V("k")), ("obj", [F("a", b)]))))
        out.append(("mapWithKey-unread-field-%d" % i, IDX(prog.STD("mapWithKey", ("fn", [("k", None), ("v", None)], V("v")), ("obj", [F("a", b), F("b", N(1))])), "b")))
        out.append(("objectValues-unread-%d" % i, ("index", prog.STD("objectValues", ("obj", [F("a", b), F("b", N(1))])), N(1))))
        out.append(("get-unused-default-%d" % i, prog.STD("get", ("obj", [F("a", N(1))]), S("a"), b)))
        out.append(("mergePatch-unread-field-%d" % i, IDX(prog.STD("mergePatch", ("obj", [F("a", b), F("b", N(1))]), ("obj", [F("c", N(2))])), "b")))
        out.append(("tailstrict-forces-%d" % i, ("apply", ("fn", [("a", None), ("b", None)], V("a")), [N(1), b], [], True)))
        # building an object evaluates its computed field names: an unneeded object with such a name must not be built
        dyn = ("obj", [("field", ("dyn", b), False, ":", None, N(1))])
        out.append(("unused-arg-computed-name-%d" % i, ("apply", ("fn", [("a", None), ("b", None)], V("a")), [N(1), dyn], [], False)))
        out.append(("unused-named-arg-computed-name-%d" % i, ("apply", ("fn", [("a", None), ("b", N(0))], V("a")), [N(1)], [("b", dyn)], False)))
        out.append(("unused-local-computed-name-%d" % i, ("local", [("bind", "u", dyn)], N(1))))
        out.append(("unread-elem-computed-name-%d" % i, ("index", ("arr", [dyn, N(1)]), N(1))))
        out.append(("unread-field-computed-name-%d" % i, IDX(("obj", [F("a", dyn), F("b", N(1))]), "b")))
        out.append(("get-unused-default-computed-name-%d" % i, prog.STD("get", ("obj", [F("a", N(1))]), S("a"), dyn)))
        out.append(("untaken-branch-computed-name-%d" % i, ("if", ("lit", "true"), N(1), dyn)))
        out.append(("overridden-default-computed-name-%d" % i, ("apply", ("fn", [("a", dyn)], V("a")), [N(1)], [], False)))
        dup = ("obj", [F("k", N(1)), ("field", ("dyn", S("k")), False, ":", None, b)])
        out.append(("unused-arg-duplicate-field-%d" % i, ("apply", ("fn", [("a", None), ("b", None)], V("a")), [N(1), dup], [], False)))
    return out


def run_case(acc, w, label, ast, instrumented, check_ts=False):
    if instrumented:
        ast = prog.instrument(ast)
    it = interp.Interp()
    try:
        ref = it.run(ast)
    except interp.Abstain:
        acc.inc("abstained")
        return
    except RecursionError:
        acc.inc("abstained")
        return
    src = jast.to_source(ast, guard_unary=True)
    acc.inc("evaluations")
    rec = w.call({"op": "eval", "code": src, "trace_cap": 20000}, timeout=20)
    cls, pay = outcome(rec)
    if cls == "ok":
        try:
            got = ("ok", strict_json(pay))
        except Exception:
            got = ("badjson", pay[:200])
    elif cls == "err":
        got = ("error", pay["kind"])
    else:
        got = (cls, pay)
    cfg = {"instrumented": instrumented}
    if not c01.compare(acc, label, src, ref, got, cfg):
        return
    obs = collections.Counter(t[0] for t in rec.get("traces", []))
    acc.inc("trace_events", sum(obs.values()))
    if ref[0] == "ok":
        over = {l: (c, it.traces.get(l, 0)) for l, c in obs.items() if c > it.traces.get(l, 0)}
        if over:
            never = [l for l, (c, r) in over.items() if r == 0]
            acc.violation({"oracle": "evaluated-more-than-needed", "kind": "unneeded-evaluated" if never else "shared-evaluated-twice",
                           "case": label if label != "random" else "random"},
                          {"case": label, "source": src, "labels": {k: {"observed": v[0], "reference_bound": v[1]} for k, v in over.items()}})
            return
        under = sum(1 for l, c in it.traces.items() if obs.get(l, 0) < c)
        if under:
            acc.inc("programs_evaluating_less_than_bound")
        shared = sum(1 for l, c in it.traces.items() if c >= 1)
        acc.inc("labels_checked", len(it.traces))
        acc.distinct(src)
    else:
        acc.inc("error_outcomes_agreeing")
        acc.distinct(src)


def shard(idx, n, tier, seed, binary):
    acc = runner.Acc()
    w = runner.Worker(binary)
    try:
        for label, ast in runner.chunks(sharing_shapes(), idx, n):
            run_case(acc, w, label, ast, False)
            run_case(acc, w, label + "+instr", ast, True)
            acc.add("shapes", label.rsplit("-", 1)[0])
        count = (30000 if tier == "quick" else 400000) // n
        for i in range(count):
            rng = runner.rng_for(seed, "c03", idx, i)
            g = prog.Gen(rng, bombs=0.6, err=0.01, ill=0.02)
            ast = g.program()
            run_case(acc, w, "random", ast, True)
            if i == 0:
                acc.sample({"instrumented_source": jast.to_source(prog.instrument(ast))[:700]})
            # tailstrict only forces arguments earlier: a value never changes
            if i % 5 == 0:
                # from a program without divergence bombs: an all-tailstrict copy of a diverging
                # unneeded argument would legitimately run forever
                g2 = prog.Gen(runner.rng_for(seed, "c03-ts", idx, i), bombs=0.0, err=0.05)
                plain = g2.program()
                ts = add_tailstrict(plain)
                if ts is not None:
                    tailstrict_pair(acc, w, plain, ts)
    finally:
        w.close()
    return acc


def add_tailstrict(e):
    """copy of e with tailstrict added to every call, or None if there is none"""
    found = [False]

    def go(x):
        if not isinstance(x, tuple):
            if isinstance(x, list):
                return [go(i) for i in x]
            return x
        if x and x[0] == "apply":
            found[0] = True
            return ("apply", go(x[1]), go(x[2]), [(n, go(a)) for n, a in x[3]], True)
        return tuple(go(i) for i in x)
    r = go(e)
    return r if found[0] else None


def tailstrict_pair(acc, w, lazy_ast, ts_ast):
    a, _ = c01.observe(w, {"op": "eval", "code": jast.to_source(lazy_ast, guard_unary=True)})
    b, _ = c01.observe(w, {"op": "eval", "code": jast.to_source(ts_ast, guard_unary=True)})
    acc.inc("evaluations", 2)
    acc.inc("tailstrict_pairs")
    if a[0] == "ok" and b[0] == "ok" and not deep_equal(a[1], b[1]):
        acc.violation({"oracle": "tailstrict-changes-value"},
                      {"source": jast.to_source(lazy_ast, guard_unary=True), "lazy": a, "tailstrict": b})
    if a[0] == "error" and b[0] == "ok":
        acc.violation({"oracle": "tailstrict-removes-error"},
                      {"source": jast.to_source(lazy_ast, guard_unary=True), "lazy": a, "tailstrict": b})


def run(tier, seed, t0):
    bins = runner.build("rel")
    accs = runner.shard_map(shard, (tier, seed, bins["jv-worker"]))
    acc = runner.Acc()
    for a in accs:
        acc.merge(a)
    return runner.finish(
        PROP, tier, seed, "exploration", acc, t0,
        rule="(i) hand-built sharing shapes (local / argument / default / array element / comprehension element "
             "/ obj.f / self.f / super.f from one and two layers / +: / object local / repeated manifestation, "
             "each used 1,2,3,5 times) and unneeded positions (unused local/argument, branch not taken, unread "
             "element/field, hidden field, overridden default/field, short-circuit, std.length/objectFields/in, "
             "slice/concat/comprehension/makeArray views) x 3 bomb kinds, plain and fully instrumented; (ii) "
             "random programs with every sub-expression wrapped in std.trace and bombs (p=0.6) in unneeded "
             "positions; (iii) lazy vs all-tailstrict pairs. distinct_nontrivial = distinct programs whose "
             "outcome matched the reference and whose every label count stayed within the reference bound",
        assumptions=["the reference evaluator's need analysis follows the specification; label counts are only "
                     "compared when the outcome is a value (evaluation order before an error is not specified)"],
        min_events=2000)


def replay(path):
    w = json.load(open(path))["witness"]
    wk = runner.Worker(runner.build("rel")["jv-worker"])
    print(json.dumps({"source": w["source"], "observed": wk.call({"op": "eval", "code": w["source"]}), "witness": w},
                     indent=1, default=str)[:4000])
    wk.close()
    return 0
