"""C12 - std.format and the % operator implement printf-style formatting.

Observed: result string or error of `fmt % vals` and std.format(fmt, vals) on the rel and
overflow-checked builds.  Oracle: mon/ref/format_ref.py, a port of the reference algorithm,
self-validated against Python's own % on their common domain (a self-check failure makes the
check inconclusive, never a violation); where published versions of the algorithm disagree
(rounding ties, exact powers of ten under e/g) the port abstains.
"""
import itertools
import json

from .. import runner
from ..common import jval, jstr, outcome, strict_json, panic_sig
from ..ref import format_ref as F

PROP = "C12"

FLAGSETS = ["".join(c for c, b in zip("#0- +", bits) if b) for bits in itertools.product([0, 1], repeat=5)]
WIDTHS = ["", "0", "1", "5", "12", "*"]
PRECS = ["", ".0", ".1", ".3", ".10", ".*"]
CONVS = list("diouxXeEfFgGcs%")
VALUES = [0.0, -0.0, 1.0, -1.0, 7.0, 255.0, 2.0 ** 31, 2.0 ** 53, 0.5, -0.5, 1.5, 2.675, 1e-7, 1e21, 123456789.0,
          0.001234, 99.99, -1234.5678, "", "abc", "é", [1.0], {"a": 1.0}, None, True]


def build_case(flags, width, prec, conv, v, star_w=7.0, star_p=2.0):
    fmt = "%" + flags + width + prec + conv
    vals = []
    if width == "*":
        vals.append(star_w)
    if prec == ".*":
        vals.append(star_p)
    if conv != "%":
        vals.append(v)
    return "[" + fmt + "]", vals


def all_cases(tier, rng):
    full = list(itertools.product(FLAGSETS, WIDTHS, PRECS, CONVS, range(len(VALUES))))
    if tier == "thorough":
        for c in full:
            yield c
        return
    # pairwise-style covering sample: every (conv, value), (conv, flagset), (conv, width, prec) appears
    seen = set()
    for conv in CONVS:
        for vi in range(len(VALUES)):
            yield (rng.choice(FLAGSETS), rng.choice(WIDTHS), rng.choice(PRECS), conv, vi)
        for fl in FLAGSETS:
            yield (fl, rng.choice(WIDTHS), rng.choice(PRECS), conv, rng.randrange(len(VALUES)))
        for w, p in itertools.product(WIDTHS, PRECS):
            for vi in (0, 2, 3, 8, 11, 14, 17, 19):
                yield ("", w, p, conv, vi)
                yield (rng.choice(FLAGSETS), w, p, conv, vi)
    for _ in range(20000):
        yield rng.choice(full)


MALFORMED = ["%", "%(", "%(a", "%(a)", "%5", "%5.", "%.", "%#", "%-", "%l", "%ld", "%hd", "%Ld", "%q", "%y", "%!", "%1$d",
             "%65535d", "%65536d", "%99999d", "%4294967296d", "%.65536f", "%.99999d", "%.0g", "%.0e", "%#.0g", "%0.0g",
             "%*d", "%.*d", "%*.*d", "%**d", "% %", "%%%", "%%%%", "abc%", "%d%", "%5%", "%-5%|", "%05%", "%(k)%", "%s%s", "%s",
             "%d %d %d", "%(a)s %(b)s", "%(a)s %s", "%(a)d", "%()s", "%(a.b)s", "%(a", "%c", "%5c", "%-3c|", "%.2c", "%.2s", "%5.1s|",
             "é%sé", "%s\n%s", "\x00%d", "%r", "%a", "%n", "%p"]
ARGSETS = [[], [1.0], [1.0, 2.0], [1.0, 2.0, 3.0], ["x"], ["x", "y"], [[1.0, 2.0]], {"a": 1.0}, {"a": "s", "b": 2.0}, {"a.b": 1.0},
           {"": 0.0}, 5.0, "str", None, True, [None], [True], [65.0], [1114112.0], [55296.0], [-1.0], [0.5], ["ab"], [""], ["é"],
           [1e300], [-1e300], [2.0 ** 63], [1e-320], [5.0, "w"], ["w", 5.0], [5.0, 2.0, 3.14159], [-5.0, 3.0], [0.0, 0.0, 1.0]]


def reference(fmt, vals):
    try:
        return ("ok", F.fmt(fmt, vals))
    except F.FmtError as e:
        return ("error", str(e))
    except F.Abstain as e:
        return ("abstain", str(e))
    except (OverflowError, ValueError, MemoryError, RecursionError) as e:
        return ("abstain", repr(e))


def run_one(acc, w, build, fmt, vals, label, forms=("op", "fn")):
    ref = reference(fmt, vals)
    for form in forms:
        if form == "op":
            src = "%s %% %s" % (jstr(fmt), jval(vals))
        elif form == "fn":
            src = "std.format(%s, %s)" % (jstr(fmt), jval(vals))
        elif form == "op-bare":     # a value that is neither array nor object stands for [value]
            src = "%s %% %s" % (jstr(fmt), jval(vals[0]))
        elif form == "mod-bare":
            src = "std.mod(%s, %s)" % (jstr(fmt), jval(vals[0]))
        else:
            src = "std.format(%s, %s)" % (jstr(fmt), jval(vals[0]))
        acc.inc("evaluations")
        rec = w.call({"op": "eval", "code": src, "state_id": "s"}, timeout=30)
        cls, pay = outcome(rec)
        wit = {"format": fmt, "values": vals, "source": src, "expected": ref, "build": build}
        if cls in ("timeout", "harness"):
            acc.inconclusive.append({"case": wit, "why": cls})
            continue
        if cls in ("panic", "crash"):
            if cls == "crash" and runner.classify_crash(rec) == "resource":
                acc.inc("resource_class")
                continue
            p = panic_sig(pay) if cls == "panic" else ("crash", "")
            acc.violation({"oracle": "crash", "site": p[0], "msg": p[1]}, dict(wit, observed=pay))
            continue
        got = ("ok", strict_json(pay)) if cls == "ok" else ("error", pay["kind"])
        if ref[0] == "abstain":
            acc.inc("abstained")
            continue
        if got[0] == ref[0] and (got[0] == "error" or got[1] == ref[1]):
            acc.distinct(src)
            acc.add("conversions", label)
            continue
        conv = fmt.rstrip("]")[-1:] if label == "grid" else "malformed"
        sig = {"oracle": "format-differs", "expected": ref[0], "got": got[0], "conversion": label if label != "grid" else conv,
               "value_kind": F.jtype(vals[-1]) if isinstance(vals, list) and vals else F.jtype(vals)}
        if label == "malformed":
            sig["format"] = fmt
        acc.violation(sig, dict(wit, observed=got))


def shard(idx, n, tier, seed, builds):
    acc = runner.Acc()
    rng = runner.rng_for(seed, "c12")
    grid = list(all_cases(tier, rng))
    mal = list(itertools.product(MALFORMED, ARGSETS))
    for build, binary in builds.items():
        w = runner.Worker(binary, timeout=30)
        try:
            for i, (fl, wd, pr, conv, vi) in enumerate(grid):
                if i % n != idx:
                    continue
                if build == "chk" and tier == "quick" and i % 3:
                    continue
                fmt, vals = build_case(fl, wd, pr, conv, VALUES[vi])
                run_one(acc, w, build, fmt, vals, "grid")
                if len(vals) == 1 and not isinstance(vals[0], (list, dict)) and (i // n) % 5 == 0:
                    run_one(acc, w, build, fmt, vals, "grid", forms=("op-bare", "mod-bare", "fn-bare"))
            for i, (fmt, vals) in enumerate(mal):
                if i % n != idx:
                    continue
                run_one(acc, w, build, fmt, vals, "malformed")
        finally:
            w.close()
    if idx == 0:
        acc.sample({"format": "[%#08.3x]", "values": [255.0], "expected": reference("[%#08.3x]", [255.0])})
    return acc


def run(tier, seed, t0):
    bad = F.self_check()
    if bad:
        print("oracle self-check failed (port of the format algorithm vs Python %%): %r" % bad[:5])
        raise runner.Broken("format reference self-validation failed - inconclusive")
    builds = {"rel": runner.build("rel")["jv-worker"], "chk": runner.build("chk")["jv-worker"]}
    accs = runner.shard_map(shard, (tier, seed, builds))
    acc = runner.Acc()
    for a in accs:
        acc.merge(a)
    return runner.finish(
        PROP, tier, seed, "exploration", acc, t0,
        rule="format codes from the cross product of 32 flag subsets x widths {none,0,1,5,12,*} x precisions "
             "{none,.0,.1,.3,.10,.*} x 15 conversions x %d values (full product in thorough = %d cases; a covering "
             "sample plus 20000 random cells in quick), each as `fmt %% vals` and std.format(fmt, vals), on the rel and "
             "overflow-checked builds; plus %d malformed / truncated / edge format strings x %d argument shapes "
             "(arity errors, object mode, wrong types). distinct_nontrivial = distinct calls whose result (string, or "
             "error-ness) equalled the reference port"
             % (len(VALUES), 32 * 6 * 6 * 15 * len(VALUES), len(MALFORMED), len(ARGSETS)),
        assumptions=["mon/ref/format_ref.py is a faithful port of the reference std.format; it abstains on rounding "
                     "ties and at exact powers of ten under e/g where published versions of the algorithm disagree",
                     "self-validated against Python's % on the common domain before every run"],
        min_events=5000)


def replay(path):
    w = json.load(open(path))["witness"]
    wk = runner.Worker(runner.build(w.get("build", "rel"))["jv-worker"])
    print(json.dumps({"source": w["source"], "observed": wk.call({"op": "eval", "code": w["source"]}),
                      "expected": w["expected"]}, indent=1, default=str)[:3000])
    wk.close()
    return 0
