"""C15 - command line, Rust API, C API and dependency lister agree.

For generated file trees + programs + option configurations the same evaluation is performed by
  (L) the library API inside the worker (the reference: State + FileImportResolver + ContextInitializer
      + apply_tla + ManifestFormat, configured directly),
  (E) the `jrsonnet` executable with the corresponding command line,
  (C) libjsonnet.so through a C driver (harness/cdriver/cdriver.c) - settings, file / snippet, multi and
      stream entry points, an import callback and native callbacks written in C,
  (D) `jrsonnet-deps` for the static import closure.
Oracles: E prints exactly L's text (+ the newline the executable adds) and exits 0, or prints an error on
stderr and exits non-zero exactly when L fails; files written by -o / -m hold L's texts; C returns L's text
and error flag (double-NUL framing decoded); D lists exactly the files statically reachable through imports
in the generated tree, and every file an evaluation loaded is among them.  A sample of C driver scripts is
also run under valgrind memcheck (any error report is a violation).
"""
import binascii
import json
import os
import re
import shutil
import subprocess
import tempfile

from .. import runner
from ..common import jval, jstr, outcome, strict_json, panic_sig

PROP = "C15"
VERIF = os.path.dirname(os.path.dirname(os.path.dirname(os.path.abspath(__file__))))

HOSTILE_VALUES = ["plain", "", "with space", "a=b", "=lead", "quote\"s'", "back\\slash", "é漢😀", "line1\nline2", "tab\there", "{\"json\": 1}", "$x", "-dash", "--ext-str", "*", "a,b"]
CODE_VALUES = ["1 + 2", "{a: 1, b: [true, null]}", "'str' + 'ing'", "[1, 2, 3]", "null", "std.length('abc')", "error 'ext boom'", "import 'd0/lib0.libsonnet'", "{a: 1}.a",
               "local x = 5; x * x", "std.extVar('e_s')"]


# ------------------------------------------------------------------ trees
class Tree:
    """a generated directory with a known static import graph"""

    def __init__(self, root, rng, idx):
        self.root = root
        self.files = {}          # relative path -> text (bytes for .bin)
        self.edges = {}          # file -> [(kind, literal, resolved-relative or None)]
        self.rng = rng
        self.build(idx)

    def w(self, rel, text):
        self.files[rel] = text
        p = os.path.join(self.root, rel)
        os.makedirs(os.path.dirname(p), exist_ok=True)
        with open(p, "wb") as f:
            f.write(text if isinstance(text, bytes) else text.encode("utf-8"))

    def build(self, idx):
        rng = self.rng
        self.ndirs = rng.choice([0, 1, 2, 3])
        self.dirs = ["d%d" % i for i in range(self.ndirs)]
        for i, d in enumerate(["d0", "d1", "d2"]):
            self.w("%s/lib%d.libsonnet" % (d, i), "{ which: 'lib%d', n: %d }" % (i, i))
            self.w("%s/shared.libsonnet" % d, "{ which: '%s' }" % d)
            self.w("%s/data%d.txt" % (d, i), "text-%d-é\n" % i)
        self.w("d1/only1.libsonnet", "{ v: 'only-in-d1', again: (import 'shared.libsonnet').which }")
        self.w("d2/chain.libsonnet", "{ c: (import 'lib2.libsonnet').which, t: importstr 'data2.txt' }")
        self.w("rel.libsonnet", "{ v: 'rel', up: 1 }")
        self.w("sub/inner.libsonnet", "{ x: (import '../rel.libsonnet').v, y: importstr '../blob.txt' }")
        self.w("blob.txt", "blob é\n\ttabbed")
        self.w("raw.bin", bytes([0, 1, 2, 255, 254, 10]))
        self.w("both.libsonnet", "{ both: (import 'rel.libsonnet').up }")
        self.w("unused.libsonnet", "{ never: import 'sub/inner.libsonnet' }")
        # one file referring to the same path first as data, then as code (and the other way round); what that
        # path imports is reachable through nothing else
        self.w("dual.libsonnet", "{ s: std.length(importstr 'deep.libsonnet'), v: (import 'deep.libsonnet').d }")
        self.w("deep.libsonnet", "{ d: (import 'deeper.libsonnet').z }")
        self.w("deeper.libsonnet", "{ z: 'deeper' }")
        self.w("dual2.libsonnet", "{ v: (import 'deep2.libsonnet').d, b: std.length(importbin 'deep2.libsonnet') }")
        self.w("deep2.libsonnet", "{ d: (import 'deeper2.libsonnet').z }")
        self.w("deeper2.libsonnet", "{ z: 'deeper2' }")
        self.w("e_code.jsonnet", "{ from_file: true, nested: (import 'rel.libsonnet').v }")
        self.w("e_str.txt", "ext str from file é\n")
        self.w("t_code.jsonnet", "[1, (import 'sub/inner.libsonnet').x]")
        self.w("t_str.txt", "tla str from file\n")
        # static graph: (kind, literal, resolution)  resolution computed by `resolve`
        self.imports = {
            "d1/only1.libsonnet": [("import", "shared.libsonnet")],
            "d2/chain.libsonnet": [("import", "lib2.libsonnet"), ("importstr", "data2.txt")],
            "sub/inner.libsonnet": [("import", "../rel.libsonnet"), ("importstr", "../blob.txt")],
            "both.libsonnet": [("import", "rel.libsonnet")],
            "unused.libsonnet": [("import", "sub/inner.libsonnet")],
            "dual.libsonnet": [("importstr", "deep.libsonnet"), ("import", "deep.libsonnet")],
            "deep.libsonnet": [("import", "deeper.libsonnet")],
            "dual2.libsonnet": [("import", "deep2.libsonnet"), ("importbin", "deep2.libsonnet")],
            "deep2.libsonnet": [("import", "deeper2.libsonnet")],
            "e_code.jsonnet": [("import", "rel.libsonnet")],
            "t_code.jsonnet": [("import", "sub/inner.libsonnet")],
        }

    def resolve(self, frm, lit, search):
        """file the import literal denotes from `frm` under search dirs (in search order), or None"""
        base = os.path.dirname(frm)
        cand = os.path.normpath(os.path.join(base, lit))
        if cand in self.files:
            return cand
        for d in search:
            cand = os.path.normpath(os.path.join(d, lit))
            if cand in self.files:
                return cand
        return None

    def closure(self, main_imports, search, start="main.jsonnet"):
        """-> set of files statically reachable from main (main itself excluded), or None when an import cannot be resolved"""
        seen = set()
        parsed = set()
        todo = [(start, main_imports)]
        while todo:
            frm, imps = todo.pop()
            for kind, lit in imps:
                r = self.resolve(frm, lit, search)
                if r is None:
                    return None
                seen.add(r)
                if kind == "import" and r not in parsed:
                    parsed.add(r)
                    todo.append((r, self.imports.get(r, [])))
        return seen


# ------------------------------------------------------------------ configurations
def make_config(rng, tree, k):
    """-> dict(program, imports(static), argv, env, lib job, expectations)"""
    cfg = {"ext": [], "tla": [], "argv": [], "env": {}, "main_imports": []}
    J = list(tree.dirs)
    rng.shuffle(J)
    J = J[:rng.randrange(0, len(J) + 1)]
    envJ = []
    if rng.random() < 0.25:
        envJ = [d for d in ["d0", "d1", "d2"] if d not in J][:rng.randrange(0, 3)]
    for d in J:
        cfg["argv"] += ["-J", d] if rng.random() < 0.5 else ["--jpath=" + d]
    if envJ:
        cfg["env"]["JSONNET_PATH"] = ":".join(envJ)
    search = list(reversed(J)) + envJ          # documented: right-most -J wins, JSONNET_PATH after them
    cfg["search"] = search

    fields = []
    # --- ext vars
    flavours = [("e_s", "str"), ("e_c", "code"), ("e_sf", "strfile"), ("e_cf", "codefile")]
    for name, kind in flavours:
        provided = rng.random() < 0.55
        if provided:
            if kind == "str":
                v = rng.choice(HOSTILE_VALUES)
                if rng.random() < 0.15:
                    cfg["env"][name] = v
                    cfg["argv"] += [rng.choice(["--ext-str", "-V"]), name]
                else:
                    cfg["argv"] += [rng.choice(["--ext-str", "-V"]), "%s=%s" % (name, v)]
            elif kind == "code":
                v = rng.choice(CODE_VALUES)
                cfg["argv"] += ["--ext-code", "%s=%s" % (name, v)]
            elif kind == "strfile":
                v = rng.choices(["e_str.txt", "blob.txt", "missing.txt", "d0/data0.txt"], [4, 3, 1, 3])[0]
                cfg["argv"] += ["--ext-str-file", "%s=%s" % (name, v)]
            else:
                v = rng.choices(["e_code.jsonnet", "rel.libsonnet", "missing.jsonnet", "d1/only1.libsonnet"], [4, 3, 1, 3])[0]
                cfg["argv"] += ["--ext-code-file", "%s=%s" % (name, v)]
                if v in tree.files:
                    pass
            cfg["ext"].append([name, kind, v])
        if rng.random() < (0.8 if provided else 0.06):
            fields.append("%s: std.extVar('%s')" % (name, name))
    # --- TLAs
    params = []
    tl = [("t_s", "str", "'dflt_s'"), ("t_c", "code", "{d: 1}"), ("t_sf", "strfile", "'dflt_sf'"), ("t_cf", "codefile", "null")]
    is_fn = rng.random() < 0.6
    for name, kind, dflt in tl:
        declared = is_fn and rng.random() < 0.7
        if declared:
            params.append(name if rng.random() < 0.1 else "%s=%s" % (name, dflt))
            fields.append("%s: %s" % (name, name))
        if rng.random() < (0.6 if declared else 0.08):
            if kind == "str":
                v = rng.choice(HOSTILE_VALUES)
                if rng.random() < 0.15:
                    cfg["env"][name] = v
                    cfg["argv"] += [rng.choice(["--tla-str", "-A"]), name]
                else:
                    cfg["argv"] += [rng.choice(["--tla-str", "-A"]), "%s=%s" % (name, v)]
            elif kind == "code":
                v = rng.choice(CODE_VALUES)
                cfg["argv"] += ["--tla-code", "%s=%s" % (name, v)]
            elif kind == "strfile":
                v = rng.choices(["t_str.txt", "blob.txt", "missing.txt"], [5, 4, 1])[0]
                cfg["argv"] += ["--tla-str-file", "%s=%s" % (name, v)]
            else:
                v = rng.choices(["t_code.jsonnet", "rel.libsonnet", "missing.jsonnet"], [5, 4, 1])[0]
                cfg["argv"] += ["--tla-code-file", "%s=%s" % (name, v)]
            cfg["tla"].append([name, kind, v])
    # --- imports
    imps = []
    choices = [("import", "rel.libsonnet", "(import 'rel.libsonnet').v"), ("import", "sub/inner.libsonnet", "(import 'sub/inner.libsonnet')"),
               ("importstr", "blob.txt", "importstr 'blob.txt'"), ("importbin", "raw.bin", "importbin 'raw.bin'"),
               ("import", "both.libsonnet", "(import 'both.libsonnet').both"), ("importstr", "both.libsonnet", "std.length(importstr 'both.libsonnet')"),
               ("import", "shared.libsonnet", "(import 'shared.libsonnet').which"), ("import", "lib0.libsonnet", "(import 'lib0.libsonnet').n"),
               ("import", "only1.libsonnet", "import 'only1.libsonnet'"), ("import", "chain.libsonnet", "import 'chain.libsonnet'"),
               ("importstr", "data1.txt", "importstr 'data1.txt'"), ("import", "d2/chain.libsonnet", "(import 'd2/chain.libsonnet').c"),
               ("import", "nope.libsonnet", "import 'nope.libsonnet'"),
               ("import", "dual.libsonnet", "(import 'dual.libsonnet').v"), ("import", "dual2.libsonnet", "(import 'dual2.libsonnet')")]
    weights = [3, 3, 2, 1, 2, 2, 3, 2, 2, 2, 1, 2, 0.3, 2, 1.5]
    for i in range(rng.randrange(0, 5)):
        kind, lit, expr = rng.choices(choices, weights)[0]
        imps.append((kind, lit))
        place = rng.random()
        if place < 0.6:
            fields.append("i%d: %s" % (i, expr))
        elif place < 0.75:
            fields.append("i%d: local hidden = %s; 1" % (i, expr))          # imported but never evaluated
        elif place < 0.9:
            fields.append("i%d: if false then %s else 0" % (i, expr))
        else:
            fields.append("i%d: [x for x in [1] if std.length([%s]) > 0]" % (i, expr))
    cfg["main_imports"] = imps
    body = "{ " + ", ".join(fields) + " }"
    # --- output mode
    mode = rng.choice(["json", "json", "string", "ystream", "multi", "ofile", "fmt", "pad", "multi-string", "ystream-json"])
    man = None
    if mode == "string":
        body = "std.manifestJsonMinified(%s)" % body if rng.random() < 0.8 else body
        cfg["argv"] += [rng.choice(["-S", "--string"])]
        man = {"fmt": "string"}
    elif mode == "ystream":
        body = "[%s, 1, 'x']" % body if rng.random() < 0.85 else body
        cfg["argv"] += [rng.choice(["-y", "--yaml-stream"])]
        man = {"fmt": "yaml", "ystream": True}
    elif mode == "ystream-json":
        body = "[%s, [1, 2]]" % body
        cfg["argv"] += ["-y", "-f", "json"]
        man = {"fmt": "json", "ystream": True}
    elif mode in ("multi", "multi-string"):
        if rng.random() < 0.85:
            body = "{ 'f1.json': %s, 'sub/f2.json': [1, 2], 'é.txt': 'text' }" % body if mode == "multi" else \
                   "{ 'a.txt': 'first\\n', 'dir/b.txt': std.manifestJsonMinified(%s) }" % body
        cfg["argv"] += [rng.choice(["-m", "--multi"]), "outm", "-c"]
        if mode == "multi-string":
            cfg["argv"] += ["-S"]
            man = {"fmt": "string"}
        cfg["multi"] = "outm"
    elif mode == "ofile":
        cfg["argv"] += [rng.choice(["-o", "--output-file"]), "out/result.json", "-c"]
        cfg["ofile"] = "out/result.json"
    elif mode == "fmt":
        f = rng.choice(["yaml", "toml", "json", "string"])
        cfg["argv"] += [rng.choice(["-f", "--format"]), f]
        man = {"fmt": {"yaml": "yaml", "toml": "toml", "json": "json", "string": "tostring"}[f]}
    elif mode == "pad":
        n = rng.choice([0, 1, 2, 5, 8])
        cfg["argv"] += ["--line-padding", str(n)]
        man = {"fmt": "json", "pad": n}
    if man is None:
        man = {"fmt": "json"}
    cfg["manifest"] = man
    # --- stack limit
    if rng.random() < 0.15:
        n = rng.choice([5, 20, 60, 200])
        depth = rng.choice([3, 15, 50, 150, 400])
        body = "local r(n) = if n == 0 then 0 else 1 + r(n - 1); [r(%d), %s][1]" % (depth, body) if mode not in ("ystream", "ystream-json", "string", "multi", "multi-string") \
            else body
        cfg["argv"] += [rng.choice(["--max-stack", "-s"]), str(n)]
        cfg["max_stack"] = n
    if rng.random() < 0.04:
        body = "error 'program fails'"
        cfg["main_imports"] = []
    if rng.random() < 0.03:
        body = "{ syntax error"
        cfg["main_imports"] = []
    prog = ("function(%s) " % ", ".join(params) if is_fn else "") + body
    cfg["program"] = prog
    cfg["input"] = rng.choice(["file", "file", "exec", "stdin"])
    return cfg


def directed_configs():
    """every output mode x value shape x input kind, without any other option"""
    out = []
    progs = ["{a: 1}", "'str'", "[1, 'a']", "{x: 'a', y: 1}", "['a', 'b']", "{x: 'a\\n', 'd/y': 'b'}", "null", "[]", "{}", "''", "function(p='d') p", "function(p='d') [p]",
             "function(p) p"]
    modes = [([], {"fmt": "json"}, {}), (["-S"], {"fmt": "string"}, {}), (["-y"], {"fmt": "yaml", "ystream": True}, {}), (["-y", "-f", "json"], {"fmt": "json", "ystream": True}, {}),
             (["-m", "outm", "-c"], {"fmt": "json"}, {"multi": "outm"}), (["-m", "outm", "-c", "-S"], {"fmt": "string"}, {"multi": "outm"}),
             (["-o", "out/result.json", "-c"], {"fmt": "json"}, {"ofile": "out/result.json"}), (["-f", "yaml"], {"fmt": "yaml"}, {}), (["-f", "toml"], {"fmt": "toml"}, {}),
             (["-f", "string"], {"fmt": "tostring"}, {}), (["--line-padding", "1"], {"fmt": "json", "pad": 1}, {})]
    for prog in progs:
        for argv, man, extra in modes:
            for inp in ("file", "exec", "stdin"):
                for tla in ([], [["p", "str", "given"]]):
                    cfg = {"ext": [], "tla": tla, "argv": list(argv) + (["-A", "p=given"] if tla else []), "env": {}, "main_imports": [], "search": [], "manifest": dict(man),
                           "program": prog, "input": inp}
                    cfg.update(extra)
                    out.append(cfg)
    return out


def lib_job(cfg):
    job = {"op": "eval", "ext": cfg["ext"], "jpath": cfg["search"], "manifest": cfg["manifest"], "err_detail": True}
    if cfg["tla"]:
        job["tla"] = cfg["tla"]
    else:
        job["tla"] = []
    if cfg["input"] == "file":
        job["file"] = "main.jsonnet"
    else:
        job["code"] = cfg["program"]
        job["name"] = "<cmdline>" if cfg["input"] == "exec" else "<stdin>"
    if "max_stack" in cfg:
        job["max_stack"] = cfg["max_stack"]
    if "multi" in cfg:
        job["multi"] = cfg["multi"]
    return job


def hx(s):
    b = s if isinstance(s, bytes) else s.encode("utf-8")
    return binascii.hexlify(b).decode() or "-"


class Shard:
    def __init__(self, acc, bins, cli, tmp):
        self.acc, self.cli, self.tmp = acc, cli, tmp
        self.bin = bins["jv-worker"]
        self.cdriver = bins.get("cdriver")
        self.workers = {}
        self.mem_budget = {"c": 0, "cb": 0}

    def take(self, what):
        if self.mem_budget[what] > 0:
            self.mem_budget[what] -= 1
            return True
        return False

    def worker(self, cwd, env):
        # a worker per (cwd, env) pair: the library reads relative paths against the process cwd and
        # ExtStr-from-environment is a command line feature (resolved here, not in the library)
        key = cwd
        w = self.workers.get(key)
        if w is None:
            if len(self.workers) > 4:
                for ww in self.workers.values():
                    ww.close()
                self.workers = {}
            w = self.workers[key] = runner.Worker(self.bin, cwd=cwd, timeout=30)
        return w

    def close(self):
        for w in self.workers.values():
            w.close()

    # -------------------------------------------------------------- executable vs library
    def run_cli(self, tree, cfg, label):
        acc = self.acc
        root = tree.root
        with open(os.path.join(root, "main.jsonnet"), "w") as f:
            f.write(cfg["program"])
        for d in ("outm", "out"):
            shutil.rmtree(os.path.join(root, d), ignore_errors=True)
        w = self.worker(root, {})
        acc.inc("evaluations")
        rec = w.call(lib_job(cfg), timeout=30)
        cls, pay = outcome(rec)
        if cls not in ("ok", "err"):
            if cls in ("panic", "crash") and not (cls == "crash" and runner.classify_crash(rec) == "resource"):
                p = panic_sig(pay) if cls == "panic" else ("crash", "")
                acc.violation({"oracle": "crash", "where": "library", "site": p[0], "msg": p[1]}, {"config": cfg})
            else:
                acc.inconclusive.append({"why": cls, "config": cfg["argv"]})
            return None
        argv = [self.cli["jrsonnet"]] + cfg["argv"]
        stdin = None
        if cfg["input"] == "file":
            argv += ["main.jsonnet"]
        elif cfg["input"] == "exec":
            argv += ["-e", cfg["program"]] if not cfg["program"].startswith("-") else ["-e", "--", cfg["program"]]
        else:
            argv += ["-"]
            stdin = cfg["program"].encode()
        env = dict(os.environ)
        env.pop("JSONNET_PATH", None)
        env.update(cfg["env"])
        acc.inc("evaluations")
        try:
            p = subprocess.run(argv, cwd=root, env=env, input=stdin, capture_output=True, timeout=60)
        except subprocess.TimeoutExpired:
            acc.inconclusive.append({"why": "executable timeout", "argv": argv})
            return None
        wit = {"argv": argv[1:], "env": cfg["env"], "program": cfg["program"], "input": cfg["input"], "library": rec.get("ok", rec.get("err")), "features": self.features(cfg),
               "exit": p.returncode, "stdout": p.stdout.decode("utf-8", "replace")[:1500], "stderr": p.stderr.decode("utf-8", "replace")[:1500]}
        opts = sorted({a.split("=")[0] for a in cfg["argv"] if a.startswith("-") and len(a) > 1 and not a[1:].isdigit()})
        feat = self.features(cfg)
        if p.returncode < 0 or p.returncode > 1 and p.returncode != 2:
            acc.violation({"oracle": "executable-crashed", "code": p.returncode}, wit)
            return None
        if cls == "err":
            if p.returncode == 0:
                acc.violation({"oracle": "library-error-but-exit-0", "kind": pay["kind"], "input": cfg["input"]}, wit)
            elif not p.stderr.strip():
                acc.violation({"oracle": "error-without-message", "input": cfg["input"]}, wit)
            elif p.stdout and "multi" not in cfg:
                acc.violation({"oracle": "error-with-output-on-stdout", "input": cfg["input"]}, wit)
            else:
                # which of several possible errors is reported is not part of this property: flags only
                acc.inc("errors_agree")
                acc.distinct(label)
            return rec
        # library succeeded
        if p.returncode != 0:
            acc.violation({"oracle": "library-ok-but-exit-nonzero", "input": cfg["input"]}, wit)
            return rec
        if "multi" in cfg:
            files = json.loads(pay)
            listed = p.stdout.decode("utf-8").split("\n")
            want_list = [os.path.join(cfg["multi"], k) for k in files]
            if listed[-1] != "" or listed[:-1] != want_list:
                acc.violation({"oracle": "multi-file-list-differs", "input": cfg["input"]}, dict(wit, expected_list=want_list))
                return rec
            for k, text in files.items():
                try:
                    got = open(os.path.join(root, cfg["multi"], k), "rb").read().decode("utf-8")
                except OSError as e:
                    acc.violation({"oracle": "multi-file-missing", "input": cfg["input"]}, dict(wit, file=k, os_error=str(e)))
                    return rec
                if got != text:
                    acc.violation({"oracle": "multi-file-content-differs", "input": cfg["input"]}, dict(wit, file=k, expected=text, got=got))
                    return rec
            extra = []
            for dp, _, fns in os.walk(os.path.join(root, cfg["multi"])):
                for fn in fns:
                    rel = os.path.relpath(os.path.join(dp, fn), os.path.join(root, cfg["multi"]))
                    if rel not in files:
                        extra.append(rel)
            if extra:
                acc.violation({"oracle": "multi-extra-files", "input": cfg["input"]}, dict(wit, extra=extra))
                return rec
        elif "ofile" in cfg:
            try:
                got = open(os.path.join(root, cfg["ofile"]), "rb").read().decode("utf-8")
            except OSError as e:
                acc.violation({"oracle": "output-file-missing", "input": cfg["input"]}, dict(wit, os_error=str(e)))
                return rec
            if got != pay + "\n" or p.stdout:
                acc.violation({"oracle": "output-file-differs", "input": cfg["input"]}, dict(wit, expected=pay + "\n", got=got))
                return rec
        else:
            want = (pay + "\n") if pay != "" else ""
            if p.stdout.decode("utf-8", "replace") != want:
                acc.violation({"oracle": "stdout-differs", "input": cfg["input"]}, dict(wit, expected=want))
                return rec
        acc.inc("values_agree")
        acc.distinct(label)
        for o in opts:
            acc.add("options", o)
        return rec

    @staticmethod
    def features(cfg):
        """which option kinds are present (for signatures: a plumbing defect follows one option kind)"""
        f = set()
        for name, kind, _ in cfg["ext"]:
            f.add("ext-" + kind)
        for name, kind, _ in cfg["tla"]:
            f.add("tla-" + kind)
        if cfg["search"]:
            f.add("jpath%d" % min(len(cfg["search"]), 2))
        if "JSONNET_PATH" in cfg["env"]:
            f.add("JSONNET_PATH")
        if any(k in cfg["env"] for k in ("e_s", "t_s")):
            f.add("value-from-env")
        f.add("fmt-" + cfg["manifest"]["fmt"] + ("-ystream" if cfg["manifest"].get("ystream") else ""))
        for k in ("multi", "ofile", "max_stack"):
            if k in cfg:
                f.add(k)
        f.add("input-" + cfg["input"])
        return " ".join(sorted(f))

    # -------------------------------------------------------------- jrsonnet-deps
    def run_deps(self, tree, cfg, rec, label):
        acc = self.acc
        if cfg["input"] != "file" or "syntax error" in cfg["program"]:
            return
        want = tree.closure(cfg["main_imports"], cfg["search"])
        argv = [self.cli["jrsonnet-deps"], "main.jsonnet"]
        for d in reversed(cfg["search"][:len(cfg["search"]) - len(cfg["env"].get("JSONNET_PATH", "").split(":")) if cfg["env"].get("JSONNET_PATH") else len(cfg["search"])]):
            argv += ["-J", d]
        env = dict(os.environ)
        env.pop("JSONNET_PATH", None)
        if "JSONNET_PATH" in cfg["env"]:
            env["JSONNET_PATH"] = cfg["env"]["JSONNET_PATH"]
        acc.inc("evaluations")
        p = subprocess.run(argv, cwd=tree.root, env=env, capture_output=True, timeout=60)
        wit = {"argv": argv[1:], "program": cfg["program"], "stdout": p.stdout.decode("utf-8", "replace")[:1500], "stderr": p.stderr.decode("utf-8", "replace")[:800],
               "exit": p.returncode, "expected": sorted(want) if want is not None else None}
        if p.returncode < 0 or p.returncode > 2:
            acc.violation({"oracle": "deps-crashed", "code": p.returncode}, wit)
            return
        if want is None:
            if p.returncode == 0:
                acc.violation({"oracle": "deps-accepts-unresolvable-import"}, wit)
            else:
                acc.inc("deps_errors_agree")
            return
        if p.returncode != 0:
            acc.violation({"oracle": "deps-fails-on-resolvable-tree"}, wit)
            return
        got = set()
        for line in p.stdout.decode("utf-8").split("\n"):
            if line:
                got.add(os.path.relpath(os.path.realpath(line if os.path.isabs(line) else os.path.join(tree.root, line)), os.path.realpath(tree.root)))
        if got != want:
            missing, extra = sorted(want - got), sorted(got - want)
            acc.violation({"oracle": "deps-list-differs", "missing": bool(missing), "extra": bool(extra)}, dict(wit, missing=missing, extra=extra))
            return
        lines = [l for l in p.stdout.decode("utf-8").split("\n") if l]
        if lines != sorted(lines) or len(lines) != len(set(lines)):
            acc.violation({"oracle": "deps-list-not-sorted-unique"}, wit)
            return
        # every file an evaluation loaded is listed (or is an ext / tla file given on the command line)
        if rec is not None:
            given = {v for _, k, v in cfg["ext"] + cfg["tla"] if k in ("strfile", "codefile")}
            loaded = set()
            for ev in rec.get("imports", []):
                if isinstance(ev, list) and len(ev) >= 3 and ev[0] == "load" and ev[2] == "ok" and os.path.isfile(ev[1]):
                    loaded.add(os.path.relpath(os.path.realpath(ev[1]), os.path.realpath(tree.root)))
            # files reached only through ext / tla code are outside the static closure of main
            via_args = set()
            for g in given:
                via_args.add(g)
                c = tree.closure(tree.imports.get(g, []), cfg["search"], start=g) if g in tree.files else set()
                via_args |= (c or set())
            for _, k, v in cfg["ext"] + cfg["tla"]:
                if k == "code" and "import" in v:
                    via_args |= {"d0/lib0.libsonnet"}
            stray = sorted(x for x in loaded if x not in want and x != "main.jsonnet" and x not in via_args)
            if stray:
                acc.violation({"oracle": "loaded-file-not-in-deps"}, dict(wit, loaded=sorted(loaded), stray=stray, ext=cfg["ext"], tla=cfg["tla"]))
                return
            acc.inc("loaded_files_checked", len(loaded))
        acc.inc("deps_agree")
        acc.distinct("deps" + label)

    # -------------------------------------------------------------- C API
    def run_c(self, tree, cfg, label, memcheck=False):
        acc = self.acc
        if self.cdriver is None:
            return
        # the C interface has no from-file / environment flavours and no output formats beyond string_output
        if any(k in ("strfile", "codefile") for _, k, _ in cfg["ext"] + cfg["tla"]):
            return
        entry = "plain"
        man = {"fmt": "json_default"}
        lines = []
        for d in reversed(cfg["search"]):
            lines.append("jpath " + hx(d))
        for name, kind, v in cfg["ext"]:
            lines.append(("ext_var " if kind == "str" else "ext_code ") + hx(name) + " " + hx(v))
        for name, kind, v in cfg["tla"]:
            lines.append(("tla_var " if kind == "str" else "tla_code ") + hx(name) + " " + hx(v))
        if "max_stack" in cfg:
            lines.append("max_stack " + hx(str(cfg["max_stack"])))
        job = lib_job(cfg)
        job.pop("multi", None)
        if cfg["manifest"]["fmt"] == "string":
            lines.append("string_output " + hx("1"))
            man = {"fmt": "string"}
        if "multi" in cfg:
            entry = "multi"
        elif cfg["manifest"].get("ystream"):
            entry = "stream"
        suffix = {"plain": "", "multi": "_multi", "stream": "_stream"}[entry]
        if cfg["input"] == "file":
            lines.append("eval_file%s %s" % (suffix, hx("main.jsonnet")))
        else:
            name = "snippet.jsonnet"
            job["name"] = name
            lines.append("eval_snippet%s %s %s" % (suffix, hx(name), hx(cfg["program"])))
        job["manifest"] = man
        if "\x00" in cfg["program"]:
            return
        # library reference for the three entry points
        w = self.worker(tree.root, {})
        if entry == "plain":
            ref = w.call(job, timeout=30)
        else:
            # multi: {name: text} of an object; stream: [text] of an array - computed by the library per element
            wrap = dict(job)
            wrap["manifest"] = man
            wrap["c_entry"] = entry
            ref = self.lib_multi_or_stream(w, cfg, job, entry, man)
        acc.inc("evaluations")
        rcls, rpay = outcome(ref) if isinstance(ref, dict) and ("ok" in ref or "err" in ref or "panic" in ref or "crash" in ref) else ref
        if rcls not in ("ok", "err"):
            return
        script = os.path.join(self.tmp, "c-%s.script" % re.sub(r"[^A-Za-z0-9]", "_", label))
        with open(script, "w") as f:
            f.write("\n".join(lines) + "\n")
        env = dict(os.environ)
        env.pop("JSONNET_PATH", None)
        argv = [self.cdriver, script]
        memcheck = self.take("c")
        if memcheck:
            acc.inc("memcheck_runs")
            argv = ["valgrind", "--tool=memcheck", "--error-exitcode=97", "--errors-for-leak-kinds=none", "--leak-check=no", "-q"] + argv
        acc.inc("evaluations")
        try:
            p = subprocess.run(argv, cwd=tree.root, env=env, capture_output=True, timeout=300 if memcheck else 60)
        except subprocess.TimeoutExpired:
            acc.inconclusive.append({"why": "cdriver timeout", "script": lines})
            return
        out = p.stdout.decode("utf-8", "replace")
        wit = {"script": [self.unhex_line(l) for l in lines], "program": cfg["program"], "exit": p.returncode, "stdout": out[:600],
               "stderr": p.stderr.decode("utf-8", "replace")[:2500], "library": rpay if rcls == "ok" else rpay.get("msg")}
        feat = self.features(cfg) + " entry-" + entry
        if memcheck and p.returncode == 97:
            first = re.search(r"==\d+== ([A-Z][^\n]+)\n(?:==\d+==\s+(?:at|by) [^\n]+\n)*", p.stderr.decode("utf-8", "replace"))
            frame = re.search(r"(?:at|by) 0x[0-9A-F]+: ([A-Za-z_][\w:<>]*) \(([\w./-]+\.rs):\d+\)", p.stderr.decode("utf-8", "replace"))
            acc.violation({"oracle": "memcheck-error", "what": first.group(1)[:60] if first else "?", "in": frame.group(2) if frame else "?"}, wit)
            return
        if p.returncode != 0 or "DONE" not in out:
            where = "abort" if p.returncode in (-6, 134) else ("segv" if p.returncode in (-11, 139) else str(p.returncode))
            msg = re.search(r"panicked at ([^\n]+)", p.stderr.decode("utf-8", "replace"))
            acc.violation({"oracle": "c-api-crashed", "how": where, "panic": (msg.group(1)[:70] if msg else ""), "uses": " ".join(sorted({l.split()[0] for l in lines}))}, wit)
            return
        res = [l.split(" ") for l in out.split("\n") if l.startswith("RESULT ")]
        if len(res) != 1:
            acc.violation({"oracle": "c-api-no-result"}, wit)
            return
        cerr = int(res[0][1])
        raw = b"" if res[0][2] == "-" else binascii.unhexlify(res[0][2])
        wit["c_error"] = cerr
        wit["c_bytes"] = raw.decode("utf-8", "replace")[:1500]
        if (rcls == "err") != (cerr == 1):
            acc.violation({"oracle": "c-error-flag-differs", "library": rcls, "input": cfg["input"]}, wit)
            return
        if rcls == "err":
            if not raw:
                acc.violation({"oracle": "c-error-without-message", "input": cfg["input"]}, wit)
                return
            acc.inc("c_errors_agree")
            acc.distinct("c" + label)
            return
        if entry == "plain":
            same = raw.decode("utf-8", "replace") == rpay
        elif entry == "multi":
            want = b"".join(k.encode() + b"\0" + v.encode() + b"\0" for k, v in rpay) + b"\0"
            if not rpay:
                want = b"\0\0"
            same = raw == want
            wit["expected_bytes"] = want.decode("utf-8", "replace")[:1500]
        else:
            want = b"".join(v.encode() + b"\0" for v in rpay) + b"\0"
            if not rpay:
                want = b"\0\0"
            same = raw == want
            wit["expected_bytes"] = want.decode("utf-8", "replace")[:1500]
        if not same:
            acc.violation({"oracle": "c-text-differs", "input": cfg["input"]}, wit)
            return
        acc.inc("c_values_agree")
        acc.distinct("c" + label)
        acc.add("c_entry_points", ("eval_file" if cfg["input"] == "file" else "eval_snippet") + suffix)

    def lib_multi_or_stream(self, w, cfg, job, entry, man):
        """library-side reference of the *_multi / *_stream entry points: the value must be an object / array
        (checked without evaluating its members), then each member is manifested with the VM's format, in order"""
        r = self.member(w, cfg, job, "", {"fmt": "json_min"}, wrap="std.type(%s)")
        if r[0] == "err":
            # the error of the top-level call itself; its wording depends on how the call is spelled
            return ("err", {"kind": "AnyError", "msg": r[1].get("msg", "")})
        if r[0] != "ok":
            return r
        ty = json.loads(r[1])
        if entry == "multi":
            if ty != "object":
                return ("err", {"kind": "RuntimeError", "msg": "runtime error: expected object as multi output"})
            r = self.member(w, cfg, job, "", {"fmt": "json_min"}, wrap="std.objectFields(%s)")
            if r[0] != "ok":
                return r
            out = []
            for k in json.loads(r[1]):
                r = self.member(w, cfg, job, "[%s]" % jstr(k), man)
                if r[0] != "ok":
                    return r
                out.append((k, r[1]))
            return ("ok", out)
        if ty != "array":
            return ("err", {"kind": "RuntimeError", "msg": "runtime error: expected array as stream output"})
        r = self.member(w, cfg, job, "", {"fmt": "json_min"}, wrap="std.length(%s)")
        if r[0] != "ok":
            return r
        out = []
        for i in range(int(json.loads(r[1]))):
            r = self.member(w, cfg, job, "[%d]" % i, man)
            if r[0] != "ok":
                return r
            out.append(r[1])
        return ("ok", out)

    def member(self, w, cfg, job, sel, man, wrap="%s"):
        j = dict(job)
        tl = j.get("tla") or []
        if cfg["input"] == "file":
            base = "(import 'main.jsonnet')"
        else:
            base = "(" + cfg["program"] + ")"
        j.pop("file", None)
        if cfg["program"].lstrip().startswith("function"):
            args = ", ".join("%s=std.extVar('__tla_%s')" % (n, n) for n, _, _ in tl)
            j["ext"] = list(j["ext"]) + [["__tla_" + n, k, v] for n, k, v in tl]
            code = wrap % ("%s(%s)%s" % (base, args, sel))
        else:
            code = wrap % (base + sel)
        j["tla"] = []
        j["code"] = code
        j["name"] = "member.jsonnet"
        j["manifest"] = man
        return outcome(w.call(j, timeout=30))

    @staticmethod
    def unhex_line(l):
        t = l.split(" ")
        return t[0] + " " + " ".join(repr(binascii.unhexlify(x).decode("utf-8", "replace")) if x != "-" else "''" for x in t[1:])

    # -------------------------------------------------------------- C callbacks
    def run_c_callbacks(self, tree, rng, k, memcheck=False):
        """import callback (file lookup implemented in C) and native callbacks against their models"""
        acc = self.acc
        if self.cdriver is None:
            return
        lines, expect = [], []
        use_cb = rng.random() < 0.6
        if use_cb:
            lines.append("import_cb")
            for d in rng.sample(["d0", "d1", "d2"], rng.randrange(0, 3)):
                lines.append("cb_dir " + hx(os.path.join(tree.root, d)))
        natives = {}
        for nm, n, mode in (("echo", rng.randrange(0, 4), 0), ("sum", rng.randrange(1, 4), 1), ("mk", rng.randrange(0, 3), 2)):
            if rng.random() < 0.7:
                natives[nm] = (n, mode)
                lines.append("native %s %s %s" % (hx(nm), hx(str(n)), hx(str(mode))))
        w = self.worker(tree.root, {})
        scal = [1.0, -2.5, "s", "é😀", True, False, None, ""]
        for _ in range(rng.randrange(1, 5)):
            r = rng.random()
            if natives and r < 0.6:
                nm = rng.choice(sorted(natives))
                n, mode = natives[nm]
                args = [rng.choice(scal) for _ in range(n)]
                if rng.random() < 0.1:
                    args = args + [1.0]          # wrong arity -> error in both
                code = "std.native(%s)(%s)" % (jstr(nm), ", ".join(jval(a) for a in args))
                if len(args) != n:
                    exp = ("err", None)
                elif mode == 0:
                    exp = ("ok", args)
                elif mode == 1:
                    exp = ("ok", float(sum(args))) if all(isinstance(a, float) for a in args) else ("err", "cdriver: not a number")
                else:
                    exp = ("ok", {"n": float(n), "first": args[0] if n else None, "nested": [True, None, "s"]})
                lines.append("eval_snippet %s %s" % (hx("native.jsonnet"), hx(code)))
                expect.append(("model", code, exp))
            else:
                code = rng.choice(["(import 'rel.libsonnet').v", "import 'sub/inner.libsonnet'", "importstr 'blob.txt'", "(import 'both.libsonnet').both",
                                   "import 'nope.libsonnet'", "[importstr 'blob.txt', (import 'rel.libsonnet').up, import 'rel.libsonnet']", "importbin 'raw.bin'",
                                   "std.native('missing')", "std.native('missing')(1)"])
                lines.append("eval_snippet %s %s" % (hx(os.path.join(tree.root, "snippet.jsonnet")), hx(code)))
                rec = w.call({"op": "eval", "code": code, "name": os.path.join(tree.root, "snippet.jsonnet"), "manifest": {"fmt": "json_default"}}, timeout=30)
                expect.append(("library", code, outcome(rec)))
        script = os.path.join(self.tmp, "cb-%d.script" % k)
        with open(script, "w") as f:
            f.write("\n".join(lines) + "\n")
        argv = [self.cdriver, script]
        memcheck = self.take("cb")
        if memcheck:
            acc.inc("memcheck_runs")
            argv = ["valgrind", "--tool=memcheck", "--error-exitcode=97", "--leak-check=no", "-q"] + argv
        acc.inc("evaluations")
        try:
            p = subprocess.run(argv, cwd=tree.root, capture_output=True, timeout=300 if memcheck else 60)
        except subprocess.TimeoutExpired:
            acc.inconclusive.append({"why": "cdriver timeout"})
            return
        out = p.stdout.decode("utf-8", "replace")
        err = p.stderr.decode("utf-8", "replace")
        wit = {"script": [self.unhex_line(l) for l in lines], "exit": p.returncode, "stdout": out[:800], "stderr": err[:2500]}
        uses = " ".join(sorted({l.split()[0] for l in lines}))
        if memcheck and p.returncode == 97:
            first = re.search(r"==\d+== ([A-Z][^\n]+)", err)
            frame = re.search(r"(?:at|by) 0x[0-9A-F]+: [^\n]*\(([\w./-]+\.rs):\d+\)", err)
            acc.violation({"oracle": "memcheck-error", "what": first.group(1)[:60] if first else "?", "in": frame.group(1) if frame else "?",
                           "uses": "import_cb" if use_cb else "natives"}, wit)
            return
        if p.returncode != 0 or "DONE" not in out:
            where = "abort" if p.returncode in (-6, 134) else ("segv" if p.returncode in (-11, 139) else str(p.returncode))
            msg = re.search(r"panicked at ([^\n]+)", err)
            acc.violation({"oracle": "c-api-crashed", "how": where, "panic": (msg.group(1)[:70] if msg else ""), "uses": uses}, wit)
            return
        res = [l.split(" ") for l in out.split("\n") if l.startswith("RESULT ")]
        if len(res) != len(expect):
            acc.violation({"oracle": "c-api-no-result", "uses": uses}, wit)
            return
        for (src, code, exp), r in zip(expect, res):
            cerr = int(r[1])
            text = (b"" if r[2] == "-" else binascii.unhexlify(r[2])).decode("utf-8", "replace")
            w2 = dict(wit, code=code, expected=exp, c_error=cerr, c_text=text[:800])
            what = "native" if src == "model" else ("import-callback" if use_cb else "default-imports")
            if exp[0] not in ("ok", "err"):
                continue
            if (exp[0] == "err") != (cerr == 1):
                acc.violation({"oracle": "c-error-flag-differs", "what": what}, w2)
                return
            if exp[0] == "ok":
                if src == "model":
                    try:
                        ok = strict_json(text) == exp[1] or json.loads(text) == exp[1]
                    except Exception:
                        ok = False
                else:
                    ok = text == exp[1]
                if not ok:
                    acc.violation({"oracle": "c-text-differs", "what": what}, w2)
                    return
            elif src == "model" and exp[1] and exp[1] not in text:
                acc.violation({"oracle": "c-error-message-differs", "what": what}, w2)
                return
            acc.inc("c_callback_results_agree")
        acc.distinct("cb%d" % k + uses)
        for l in lines:
            acc.add("c_entry_points", l.split()[0])


def build_cdriver(cli):
    out = os.path.join(VERIF, ".build", "cdriver", "cdriver")
    src = os.path.join(VERIF, "harness", "cdriver", "cdriver.c")
    os.makedirs(os.path.dirname(out), exist_ok=True)
    lib = os.path.join(cli["libdir"], "libjsonnet.so")
    if not os.path.exists(lib):
        raise runner.Broken("libjsonnet.so was not built")
    newest = max(os.path.getmtime(src), os.path.getmtime(lib))
    if not os.path.exists(out) or os.path.getmtime(out) < newest:
        tmp = out + ".%d" % os.getpid()
        p = subprocess.run(["gcc", "-O1", "-g", "-rdynamic", src, "-I" + os.path.join(runner.REPO, "bindings/c"), "-L" + cli["libdir"], "-ljsonnet",
                            "-Wl,-rpath," + cli["libdir"], "-o", tmp], capture_output=True)
        if p.returncode != 0:
            raise runner.Broken("cdriver build failed: " + p.stderr.decode()[:2000])
        os.replace(tmp, out)
    return out


def shard(idx, n, tier, seed, bins, cli):
    acc = runner.Acc()
    tmp = tempfile.mkdtemp(prefix="c15-")
    sh = Shard(acc, bins, cli, tmp)
    try:
        ntrees = 6 if tier == "quick" else 18
        per_tree = 18 if tier == "quick" else 40
        mem_per_tree = 1 if tier == "quick" else 3
        k = 0
        dtree = Tree(os.path.join(tmp, "directed"), runner.rng_for(seed, "c15-directed"), 0)
        for i, cfg in enumerate(directed_configs()):
            if i % n != idx:
                continue
            label = "directed-%d" % i
            sh.run_cli(dtree, cfg, label)
            sh.run_c(dtree, cfg, label)
        for t in range(ntrees):
            rng = runner.rng_for(seed, "c15", idx, t)
            tree = Tree(os.path.join(tmp, "t%d" % t), rng, t)
            if tier != "quick" or t == 0:
                sh.mem_budget = {"c": mem_per_tree + 1, "cb": mem_per_tree + 1}
            for c in range(per_tree):
                k += 1
                cfg = make_config(rng, tree, k)
                label = "s%d-t%d-c%d" % (idx, t, c)
                rec = sh.run_cli(tree, cfg, label)
                sh.run_deps(tree, cfg, rec, label)
                sh.run_c(tree, cfg, label)
                if c % 3 == 0:
                    sh.run_c_callbacks(tree, rng, k)
                if idx == 0 and t == 0 and c == 0:
                    acc.sample({"argv": cfg["argv"], "env": cfg["env"], "program": cfg["program"], "input": cfg["input"]})
    finally:
        sh.close()
        shutil.rmtree(tmp, ignore_errors=True)
    return acc


def run(tier, seed, t0):
    bins = dict(runner.build("rel"))
    cli = runner.build_cli()
    bins["cdriver"] = build_cdriver(cli)
    accs = runner.shard_map(shard, (tier, seed, bins, cli))
    acc = runner.Acc()
    for a in accs:
        acc.merge(a)
    return runner.finish(
        PROP, tier, seed, "exploration", acc, t0,
        rule="generated file trees (relative imports, three library dirs with a shadowed file name, importstr / importbin, chains, a file both imported and "
             "importstr'ed, files imported only from unevaluated positions) x programs reading ext vars / top-level arguments / imports x option configurations: "
             "each ext and tla flavour (value, value from environment, code, str file, code file; present, missing, unused), 0-3 -J dirs in random order and "
             "spelling + JSONNET_PATH, output modes (-S, -y, -y -f json, -f yaml|toml|json|string, -m with -c, -o with -c, --line-padding), --max-stack with "
             "recursion, input as file / -e / stdin, failing and unparsable programs; the same configuration through the library (reference), the executable, "
             "libjsonnet.so via a C driver (settings, file / snippet x plain / multi / stream, C import callback, C native callbacks; a sample under valgrind "
             "memcheck) and jrsonnet-deps. distinct_nontrivial = configurations on which an interface agreed with the reference",
        assumptions=["the library API inside the worker is the reference for `the value the library computes`", "right-most -J wins, JSONNET_PATH directories come after them (as documented in --help)",
                     "the C string_output setting means `expect a string` (header documentation)", "error texts are compared by their first line when it contains no path"],
        min_events=1500)


def replay(path):
    w = json.load(open(path))["witness"]
    print(json.dumps(w, indent=1, default=str, ensure_ascii=False)[:6000])
    return 0
