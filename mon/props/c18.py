"""C18 - garbage cycles are reclaimed and interned strings stay canonical.

Part A (collector).  Hooks-free gauges of the worker: jrsonnet_gcmodule::count_thread_tracked() after
collect_thread_cycles(), taken once the result, the error and the evaluation state of a job have been
dropped, plus the interner pool size (verif hook).  A program is evaluated repeatedly; the gauges after
the second and third run must equal the gauges after the first one: whatever the first run left behind
(per-thread singletons such as the shared empty object or interned builtin parameter names, which are
reachable and not garbage) may stay, but nothing may accumulate per evaluation.  The same for batches
evaluated in one long-lived state that is then dropped, and for programs importing files.

Part B (interner).  harness-intern/src/main.rs runs every operation history up to a length bound
(intern str / bytes, clone, drop, cast str<->bytes, pool hand-over) and long random histories with
hand-over to another thread against the real interner and an executable model, natively (optimised
and debug-assertion builds) and under Miri (undefined behaviour, leaks, data races in the unsafe
reference counting).
"""
import json
import os
import shutil
import subprocess
import tempfile

from .. import runner, sanit
from ..common import outcome, panic_sig
from ..gen import prog
from ..ref import jast
from . import c02, c03

PROP = "C18"

CYCLIC = [
    "{ a: self, b: $ }",
    "local o = { a: self, b: 1 }; o.a.a.a.b",
    "local o = { a: { b: $ } }; o.a.b.a.b.a",
    "local a = { x: b }, b = { y: a }; a.x.y.x.y",
    "local f(n) = if n == 0 then 0 else g(n - 1), g(n) = if n == 0 then 1 else f(n - 1); f(10)",
    "local f = function(n) if n == 0 then [] else [f] + f(n - 1); std.length(f(5))",
    "local o = { f(x):: self, g: self.f(1) }; std.objectFields(o.g)",
    "local o = { local l = self, a: l.b, b: 1 }; o.a",
    "local o = { local l = $.a, a: 1, b: { c: l, d: $ } }; o.b.c",
    "{ a: 1 } + { a+: 2, c: super.a, d: self }",
    "local base = { x: 1, y: self.x }; local d = base + { x: 2, z: super.y, w: base }; [d.y, d.z, d.w.y]",
    "local o = { assert self.a == 1, a: 1, b: self }; o.b.b.a",
    "local o = { assert self.a == 2 : 'bad', a: 1, b: self }; o.b.b.a",
    "local arr = std.makeArray(3, function(i) arr); std.length(arr[0][1][2])",
    "local arr = std.map(function(x) { v: x, all: arr }, [1, 2, 3]); arr[1].all[2].v",
    "local o = { vals: std.objectValues(self), a: 1 }; std.length(o.vals)",
    "local o = { kv: std.objectKeysValues(self), a: 1 }; o.kv[0].key",
    "local o = std.mapWithKey(function(k, v) o, { a: 1, b: 2 }); std.objectFields(o.a.b)",
    "local p = std.mergePatch({ a: { b: 1 }, c: p }, { a: { d: 2 } }); p.a",
    "local o = { a: std.filter(function(x) x.b == 1, [o]), b: 1 }; std.length(o.a)",
    "local o = { a: [o, o, o], b: o.a[1:] }; std.length(o.b)",
    "local o = { s: std.reverse([o]), r: std.repeat([o], 3) }; std.length(o.r)",
    "local f(x) = { me: f, arg: x }; f(f(f(1))).arg.arg.arg",
    "local o = { a: function() o, b: o.a().a().a }; std.type(o.b)",
    "local o = { a: error 'boom', b: self }; o.b.b.a",
    "local o = { a: self.b, b: self.a }; o.a",
    "local r(n) = { next: r(n + 1), n: n }; r(0).next.next.next.n",
    "local r(n) = 1 + r(n + 1); r(0)",
    "local o = { a: o.a }; o.a",
    "std.foldl(function(a, b) a + { ['' + b]: a }, [1, 2, 3], {})",
    "local o = { x: std.extVar('v'), me: self }; o.me.x",
    "function(t={ me: null }) local o = { t: t, me: self }; o.me.t",
    "local o = { comp: { [k]: o for k in ['a', 'b'] } }; std.objectFields(o.comp.a.comp)",
    "local o = { arr: [o for i in [1, 2, 3] if i > 1] }; std.length(o.arr)",
    "{ a: 1, b:: self, c::: $.b }",
    "local x = { a: 1 }; x { b: super.a, c: self } { d: super.c.b }",
    "std.objectRemoveKey({ a: 1, b: self }, 'a')",
    "local o = { t: std.trace('t', self) }; std.type(o.t)",
    "local o = { s: std.toString(self.v), v: { w: [1, { me: 'x' }] } }; o.s",
    "local o = std.prune({ a: { b: null, c: { d: [] } }, e: 1 }); o",
    # standalone `super` (jrsonnet extension): a view object that refers back to the object it was taken from
    "local base = { a: 1, b: 2 }; local o = base + { view: super, sum: self.view.a + self.view.b }; o.sum",
    "local base = { a: 1, b: 2 }; local o = base + { view: super }; std.objectFields(o.view)",
    "local o = { a: 1 } + { v: super, w: self.v } + { x: super, y: [self.x, self.w] }; std.length(o.y)",
    "local o = { a: 1 } + { v:: super, me: self }; o.me.v.a",
    "local o = { a: 1 } + { f():: super, r: self.f().a, keep: self.f() }; o.r",
    "local o = { a: self.b, b: 2 } + { s: super, t: self.s.a }; o.t",
    "local mk(x) = x + { up: super }; local o = mk(mk({ a: 1 })); std.objectFields(o.up.up)",
]


# array views stored where the array they are taken from can reach them again (same local group; object fields over
# a self-array): every view type must report its edge to the underlying array to the collector
for _v in ("std.reverse(%s)", "%s[1:]", "%s[::2]", "std.repeat(%s, 2)", "std.map(function(x) x, %s)", "std.filter(function(x) true, %s)",
           "(%s + [3])", "std.slice(%s, 0, null, 1)", "std.mapWithIndex(function(i, x) x, %s)", "std.flattenArrays([%s])", "std.sort(%s)",
           "[x for x in %s]", "std.reverse(std.reverse(%s))", "std.objectValues({ a: %s })"):
    CYCLIC.append("local base = [1 + 1, 2], v = %s; v" % (_v % "base"))
    CYCLIC.append("{ n: 1, items: [self.n, 2], back: %s }" % (_v % "self.items"))
    CYCLIC.append("local o = { items: [o.n + 1], n: 1, view: %s, again: self.view }; std.length(o.again)" % (_v % "o.items"))


def gauges(rec):
    g = rec.get("gc")
    return None if g is None else (g["after"], g["pool_after"])


RUNAWAY = [
    "local sum(xs) = std.foldl(function(a, b) a + b, xs, 0); local stage(i) = { assert i >= 0 : 'neg', cost: sum([i, stage(i + 1).cost]) }; stage(0).cost",
    "local stage(i) = { assert i >= 0, assert self.cost > 0, cost: i + stage(i + 1).cost }; stage(0).cost",
    "local stage(i) = { local nxt = stage(i + 1), assert i >= 0, cost: [i, nxt.cost][1] + 1 }; stage(0).cost",
    "local stage(i) = { assert i >= 0, cost: 1 } + { cost+: stage(i + 1).cost, assert super.cost == 1 }; stage(0).cost",
    "local f(n) = std.map(function(x) f(x + 1)[0] + 1, [n]); f(0)[0]",
    "local f(n) = { a: [f(n + 1).a[0] + 1] }; f(0).a[0]",
    "local f(n) = std.objectValues({ assert n >= 0, v: f(n + 1)[0] })[0] + 1; [f(0)]",
    "local o = { assert self.a == 1, a: $.b, b: $.c, c: $.a }; o.a",
    "local f(n) = { assert std.length(self.k) >= 0, k: std.join(',', [std.toString(n), f(n + 1).k]) }; f(0).k",
    "local f(n) = std.mergePatch({ assert true, a: n }, { a: f(n + 1).a }); f(0).a",
]


class Collector:
    def __init__(self, acc, binary, cwd=None):
        self.acc = acc
        self.bin = binary
        self.cwd = cwd
        self.w = runner.Worker(binary, timeout=30, cwd=cwd)
        self.max_stack = 120

    def close(self):
        self.w.close()

    def job(self, code, state_id=None, gc=True, file=None):
        j = {"op": "eval", "gc": gc, "max_stack": self.max_stack, "ext": [["v", "str", "ext-value"]]}
        if file:
            j["file"] = file
        else:
            j["code"] = code
        if state_id:
            j["state_id"] = state_id
        if code and code.lstrip().startswith("function"):
            j["tla"] = []
        return j

    def call(self, job):
        self.acc.inc("evaluations")
        rec = self.w.call(job, timeout=30)
        cls, pay = outcome(rec)
        if cls in ("ok", "err"):
            return rec, cls
        if cls in ("panic", "crash") and not (cls == "crash" and runner.classify_crash(rec) == "resource"):
            p = panic_sig(pay) if cls == "panic" else ("crash", "")
            self.acc.violation({"oracle": "crash", "site": p[0], "msg": p[1]}, {"job": job})
        else:
            self.acc.inconclusive.append({"why": cls, "job": str(job)[:300]})
        self.w.close()
        self.w = runner.Worker(self.bin, timeout=30, cwd=self.cwd)
        return None, cls

    def repeat(self, cls_name, code, file=None):
        """the same program three times in fresh states: the gauges must not grow after the first run"""
        obs = []
        kinds = []
        for _ in range(3):
            rec, k = self.call(self.job(code, file=file))
            if rec is None:
                return
            obs.append(gauges(rec))
            kinds.append(k)
            self.acc.inc("collections_observed")
            self.acc.inc("objects_collected", rec["gc"]["collected"])
        if obs[1] != obs[0] or obs[2] != obs[0]:
            what = "tracked-objects" if (obs[1][0] != obs[0][0] or obs[2][0] != obs[0][0]) else "interned-strings"
            self.acc.violation({"oracle": "gauge-grows-per-evaluation", "what": what, "outcome": kinds[0], "class": cls_name},
                               {"program": code or file, "after_each_run (tracked, pool)": obs})
            # restart so that one leak is not blamed on later programs
            self.w.close()
            self.w = runner.Worker(self.bin, timeout=30, cwd=self.cwd)
            return
        self.acc.inc("outcome_" + kinds[0])
        self.acc.add("classes", cls_name)
        self.acc.distinct(code or file)

    def limit_sweep(self, cls_name, code, limits):
        """runaway recursion cut off at every frame limit of a range: whichever guarded region (field read, assertion run,
        array element, call) happens to take the last free frame, nothing it registered may stay behind"""
        for lim in limits:
            self.max_stack = lim
            try:
                self.repeat("%s@limit" % cls_name, code + " /* limit %d */" % lim)
            finally:
                self.max_stack = 120

    def batch(self, codes, label):
        """a long-lived state evaluating a batch, then dropped: twice; second total must equal the first"""
        totals = []
        for rnd in range(2):
            for c in codes:
                rec, k = self.call(self.job(c, state_id="batch", gc=False))
                if rec is None:
                    return
            self.w.call({"op": "drop_state", "state_id": "batch"})
            rec, k = self.call(self.job("null"))
            if rec is None:
                return
            totals.append(gauges(rec))
        if totals[0] != totals[1]:
            self.acc.violation({"oracle": "gauge-grows-per-batch", "what": "tracked-objects" if totals[0][0] != totals[1][0] else "interned-strings"},
                               {"batch": codes[:20], "after_each_round (tracked, pool)": totals})
            self.w.close()
            self.w = runner.Worker(self.bin, timeout=30, cwd=self.cwd)
            return
        self.acc.inc("batches_reclaimed")
        self.acc.distinct("batch" + label)


def import_tree(root):
    files = {
        "main.jsonnet": "local a = import 'a.libsonnet'; { a: a, b: (import 'b.libsonnet')(a), me: self, t: importstr 'a.libsonnet' }",
        "a.libsonnet": "{ x: 1, b: import 'b.libsonnet', me: self }",
        "b.libsonnet": "function(o) { o: o, again: import 'c.libsonnet' }",
        "c.libsonnet": "local s = { me: s, f: function() s }; s",
        "err.jsonnet": "local a = import 'a.libsonnet'; { a: a, e: error 'boom' + std.toString(std.length(a.b(1))) }",
        "cyc1.jsonnet": "{ other: import 'cyc2.jsonnet', v: 1 }",
        "cyc2.jsonnet": "{ other: import 'cyc1.jsonnet', v: 2 }",
        "usecyc.jsonnet": "(import 'cyc1.jsonnet').other.other.other.v",
        "selfimport.jsonnet": "(import 'selfimport.jsonnet') + 1",
    }
    for k, v in files.items():
        with open(os.path.join(root, k), "w") as f:
            f.write(v)
    return ["main.jsonnet", "err.jsonnet", "usecyc.jsonnet", "selfimport.jsonnet", "a.libsonnet"]


def shard(idx, n, tier, seed, binary):
    acc = runner.Acc()
    tmp = tempfile.mkdtemp(prefix="c18-")
    col = Collector(acc, binary, cwd=tmp)
    try:
        # hand-written cyclic structures
        for i, code in enumerate(CYCLIC):
            if i % n == idx:
                col.repeat("cyclic", code)
        # runaway recursions through every kind of guarded region, cut off at each frame limit of a range
        for i, code in enumerate(RUNAWAY):
            lims = list(range(24, 64)) if tier == "thorough" else list(range(30, 46))
            for lim in lims:
                if (i * 97 + lim) % n == idx:
                    col.limit_sweep("runaway", code, [lim])
        # sharing shapes of C03 and object chains of C02 (instrumented and plain)
        shapes = c03.sharing_shapes()
        for i, (label, ast) in enumerate(shapes):
            if i % n == idx:
                col.repeat("c03-shape", jast.to_source(ast, guard_unary=True))
        rng = runner.rng_for(seed, "c18", idx)
        chains = list(c02.chains("quick", runner.rng_for(seed, "c18-chains")))
        rng.shuffle(chains)
        for spec in chains[:(60 if tier == "quick" else 1500)]:
            binds, chain = c02.build(spec)
            ast = ("local", binds + [("bind", "o", chain)], ("arr", [("var", "o"), ("var", "o")])) if binds else ("local", [("bind", "o", chain)], ("var", "o"))
            col.repeat("c02-chain", jast.to_source(ast))
        # random programs: values, errors, ill-typed terms
        nrand = 150 if tier == "quick" else 4000
        batch = []
        for i in range(nrand):
            g = prog.Gen(runner.rng_for(seed, "c18-gen", idx, i), max_depth=4, ill=0.1, err=0.08)
            code = jast.to_source(g.program())
            col.repeat("random", code)
            batch.append(code)
            if len(batch) == 25:
                col.batch(batch + CYCLIC[idx::4], "s%d-%d" % (idx, i))
                batch = []
        # imports: cached file values hold evaluated objects and contexts
        if idx % 4 == 0:
            for f in import_tree(tmp):
                col.repeat("imports", None, file=f)
        if idx == 0:
            acc.sample({"program": CYCLIC[3], "gauges": "count_thread_tracked() after collect_thread_cycles(), interner pool size"})
    finally:
        col.close()
        shutil.rmtree(tmp, ignore_errors=True)
    return acc


def run_intern(acc, what, argv_prefix, args, env=None, timeout=3000):
    acc.inc("evaluations")
    try:
        p = subprocess.run(list(argv_prefix) + args, capture_output=True, text=True, timeout=timeout, env=env, cwd=runner.INTERN)
    except subprocess.TimeoutExpired:
        acc.inconclusive.append({"why": "interner driver timeout", "what": what, "args": args})
        return
    line = [l for l in p.stdout.split("\n") if l.startswith("{")]
    if p.returncode != 0 or not line:
        err = p.stderr[-3000:]
        kind = "miri-error" if "Undefined Behavior" in err or "error: " in err and what == "miri" else "driver-crashed"
        first = ""
        for l in err.split("\n"):
            if l.startswith("error"):
                first = l[:120]
                break
        acc.violation({"oracle": kind, "build": what, "first": first}, {"args": args, "stderr": err, "stdout": p.stdout[-500:]})
        return
    r = json.loads(line[-1])
    acc.inc("interner_histories", r["sequences"])
    acc.inc("interner_operations", r["ops"])
    acc.inc("interner_invariant_checks", r["checks"])
    acc.inc("interner_thread_handovers", r["thread_handovers"])
    acc.inc("interner_distinct_states_" + what, r["distinct_states"])
    if r["violation"] is not None:
        v = r["violation"]
        acc.violation({"oracle": "interner-model-mismatch", "build": what, "message": v["message"][:80]},
                      {"args": args, "ops": v["ops"], "decoded": v["decoded"], "replay": "jv-intern replay " + " ".join(map(str, v["ops"]))})
        return
    acc.distinct("intern-%s-%s" % (what, " ".join(args)))


def interner_part(acc, tier, seed):
    rel = runner.build_intern("rel")
    chk = runner.build_intern("chk")
    L = 4 if tier == "quick" else 6
    run_intern(acc, "rel", [rel], ["exhaustive", str(L)])
    run_intern(acc, "chk", [chk], ["exhaustive", str(L - 1)])
    run_intern(acc, "rel", [rel], ["random", str(seed), "3000" if tier == "quick" else "200000", "80"])
    run_intern(acc, "chk", [chk], ["random", str(seed + 1), "1000" if tier == "quick" else "50000", "80"])
    try:
        cmd, env = runner.build_intern("miri")
    except runner.Broken as e:
        acc.inconclusive.append({"why": "Miri not usable: %s" % e})
        return
    jobs = [["exhaustive", "2"], ["random", str(seed), "12", "30"]] if tier == "quick" else \
        [["exhaustive", "3"]] + [["random", str(seed * 100 + i), "60", "40"] for i in range(14)]
    # Miri interprets one thread at a time: shard the histories over processes
    import concurrent.futures
    sub = [runner.Acc() for _ in jobs]
    with concurrent.futures.ThreadPoolExecutor(max_workers=min(15, len(jobs))) as ex:
        list(ex.map(lambda ja: run_intern(ja[1], "miri", cmd, ja[0], env), zip(jobs, sub)))
    for a in sub:
        acc.merge(a)


INTERNER_HEAVY = [
    "std.decodeUTF8(std.encodeUTF8('é😀')) + std.decodeUTF8(std.encodeUTF8(''))",
    "local b = std.encodeUTF8('abc'); [b, b, std.decodeUTF8(b), std.length(b)]",
    "std.base64(std.base64DecodeBytes('/w==')) + std.base64('/w==')",
    "local s = 'k' + 'e' + 'y'; { [s]: s, ['ke' + 'y2']: s }[s] + std.join('', ['k', 'e', 'y'])",
    "std.objectFields({ [std.toString(i)]: i for i in std.range(0, 40) })",
    "[std.substr('héllo wörld', i, 3) for i in std.range(0, 10)] + std.split('a,b,,c', ',')",
    "std.md5('x') + std.sha256(std.decodeUTF8([120])) + std.toString(std.encodeUTF8('x') == [120])",
    "local f(x) = x + x; f(f(f('ab'))) + std.asciiUpper('ab') + std.strReplace('abab', 'b', 'é')",
    "std.decodeUTF8([255, 254])",
    "std.parseJson('{\"a\": [\"a\", \"b\", \"a\"], \"b\": \"a\"}')",
    "std.manifestYamlDoc({ a: 'a', b: ['a', 'b'] }) + std.manifestToml({ a: 'a' })",
    "{ ['f' + i]: 'f' + i for i in std.range(0, 20) } + { ['f' + i]+: '!' for i in std.range(5, 10) }",
]


def memory_jobs():
    return [sanit.item(c, gc=True, max_stack=120, ext=[["v", "str", "ext-value"]]) for c in CYCLIC if not c.lstrip().startswith("function")] + \
           [sanit.item(c, gc=True) for c in INTERNER_HEAVY]


def run(tier, seed, t0):
    bins = runner.build("rel")
    accs = runner.shard_map(shard, (tier, seed, bins["jv-worker"]))
    acc = runner.Acc()
    for a in accs:
        acc.merge(a)
    interner_part(acc, tier, seed)
    # the evaluator's own use of the interner and of the collector under the memory monitors: LeakSanitizer /
    # memcheck report memory that became unreachable without being freed (a lost reference count), ASan / Miri a
    # use after free (a reference count dropped too early)
    sanit.run_pass(acc, PROP, tier, seed, extra_items=memory_jobs(),
                   quick={"asan": 240, "memcheck": 64, "miri": 24},
                   thorough={"asan": 2400, "memcheck": 480, "miri": 160})
    return runner.finish(
        PROP, tier, seed, "exploration", acc, t0,
        rule="collector: %d hand-written cyclic structures (self / $ / super references, mutually recursive locals and functions, closures capturing their "
             "owner, object locals, asserts, lazy array / object views and std results that capture contexts, comprehensions, errors, infinite recursion, stack "
             "overflow), the C03 sharing shapes, sampled C02 inheritance chains, random generated programs (values and errors) and importing files (incl. import "
             "cycles), each evaluated 3 times in fresh states with the tracked-object and pool gauges read after dropping everything and collecting; batches of "
             "25+ programs in one long-lived state, dropped, twice. interner: every history of <= 4 (quick) / 6 (thorough) operations over 8 contents "
             "(shared between str and bytes, valid and invalid UTF-8) and 4 handle slots + random histories of 80 operations with thread hand-over, against an "
             "executable model with 5 invariants after every operation; optimised, debug-assertion and Miri builds. memory monitors: the cyclic and interner-heavy "
             "programs plus a sample of the workload replayed under AddressSanitizer + LeakSanitizer, valgrind memcheck (definite leaks) and Miri. "
             "distinct_nontrivial = programs / batches / "
             "driver runs without growth or mismatch" % len(CYCLIC),
        assumptions=["objects still tracked after the first evaluation of a program are per-thread singletons (reachable, not garbage); a leak shows as growth on repetition",
                     "the gauges are jrsonnet_gcmodule::count_thread_tracked() and the verif-hooks pool accessor; no hook changes behaviour"],
        min_events=1500)


def replay(path):
    w = json.load(open(path))["witness"]
    print(json.dumps(w, indent=1, default=str, ensure_ascii=False)[:6000])
    return 0
