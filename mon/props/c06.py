"""C06 - the bundled parsers accept the same language and build the same tree.

Observed (worker `bulk`/`parse` ops): default parser -> canonical tree or reject; legacy PEG
parser -> same; syntax-tree (rowan) parser -> error count.  Oracles: (1) accept/reject and
tree equality between the two evaluator parsers, (2) for generated programs the intended
tree is known and both parsers must return exactly it, (3) rowan reports zero errors <=>
the evaluator's parser accepts.  A disagreement is reduced by delta debugging to a minimal
core, which is its signature.
"""
import json
import re
import time

from .. import runner, tokseq
from ..common import panic_sig

PROP = "C06"
OPERANDS = {"1", '"s"', "y", "self", "super", "$", "0.5", "1e3", "1_000", "'t'", "null", "true", "false", "std"}


def kinds_of(r):
    """disagreement kinds for one bulk record"""
    ks = []
    if "dead" in r:
        return ["dead"]
    if r["ir"] != r["peg"]:
        ks.append("accept:default=%s,legacy=%s" % (r["ir"], r["peg"]))
    elif not r["same"]:
        ks.append("tree-differs")
    if r["rowan"] >= 0 and (r["rowan"] == 0) != r["ir"]:
        ks.append("syntax-tree-parser:errors=%s,default-accepts=%s" % (r["rowan"] != 0, r["ir"]))
    return ks


def reduce_core(w, units, sep, kind):
    def fails(cand):
        rec = w.call({"op": "bulk", "texts": [sep.join(cand)]}, timeout=60)
        if "res" not in rec:
            return False
        return kind in kinds_of(rec["res"][0])
    core = tokseq.ddmin(list(units), fails)
    # canonicalise surviving tokens to class representatives where the failure persists
    if sep == " ":
        for i, t in enumerate(core):
            if t in OPERANDS and t != "x" and fails(core[:i] + ["x"] + core[i + 1:]):
                core[i] = "x"
    return core


RE_UNARY_PLUS = re.compile(r"\(u \+ ")
RE_COMPUTED_IMPORT = re.compile(r"\(import(str|bin)? (?!\(s )")
RE_UNARY_OVER_MUL = re.compile(r"\(u \S+ \(b [*/%] ")
RE_LOCAL_OPERAND = re.compile(r"\((u \S+|b \S+ .*) \((local|assertexpr) ")
RE_COMMENT_CR = re.compile(r"(#|//)[^\n]*\r(?!\n)")
RE_IDENT = re.compile(r"\b(?!(?:local|if|then|else|function|for|in|error|assert|import|importstr|importbin|self|super|tailstrict|null|true|false)\b)[A-Za-z_][A-Za-z_0-9]*")


def classify(w, core_text, kind):
    """Root-cause class of a reduced disagreement, decided from what the real lexer and the
    real default parser say about the core (no guessing from the text alone)."""
    d = w.call({"op": "parse", "code": core_text, "lex": True}, timeout=60)
    toks = [t[0] for t in d.get("tokens", [])]
    errk = [t for t in toks if (t.startswith("ERROR_") and t != "ERROR_KW") or t == "LEXING_ERROR"]
    tree = (d.get("ir") or {}).get("tree", "")
    irerr = (d.get("ir") or {}).get("err", "")
    if kind == "syntax-tree-parser:errors=False,default-accepts=False":
        if errk:
            return "malformed-token-not-reported", {"token_kind": errk[0]}
        if "FLOAT" in toks and ("finite" in irerr or "number" in irerr.lower()):
            return "nonfinite-number-literal-not-reported", {}
        if "invalid string escape" in irerr:
            # the syntax-tree parser keeps string tokens as they are written and never decodes their escapes
            return "invalid-string-escape-not-reported", {}
    if kind == "syntax-tree-parser:errors=True,default-accepts=True":
        if RE_UNARY_PLUS.search(tree):
            return "unary-plus-rejected", {}
        if RE_COMPUTED_IMPORT.search(tree) or re.search(r"import(str|bin)?\s*\(", core_text):
            return "computed-import-accepted-by-evaluator-parsers", {}
        if RE_LOCAL_OPERAND.search(tree):
            return "local-or-assert-as-operand-rejected", {}
    if kind == "tree-differs" and RE_UNARY_OVER_MUL.search(tree):
        return "unary-binds-looser-than-multiplicative-in-default-parser", {}
    if kind.startswith("accept:") and RE_COMMENT_CR.search(core_text):
        return "comment-ended-by-lone-CR", {}
    silent = kind == "syntax-tree-parser:errors=False,default-accepts=False"
    legacy_lax = kind == "accept:default=False,legacy=True"
    if silent or legacy_lax:
        who = "syntax-tree-parser" if silent else "legacy-parser"
        if re.search(r"[(\[{,]\s*,|,\s*;", core_text):
            return "stray-comma-accepted-by-" + who, {}
        if silent and re.search(r":(\s|/\*.*?\*/|//[^\n]*\n|#[^\n]*\n)+:", core_text, re.S):
            return "spaced-colons-accepted-by-syntax-tree-parser", {}
        if silent and re.search(r"\?\?", core_text):
            return "null-coalesce-operator-accepted-by-syntax-tree-parser", {}
        if silent and re.search(r"[\[{].*if\b", core_text) and not re.search(r"\bfor\b", core_text):
            return "comprehension-without-for-accepted-by-syntax-tree-parser", {}
        if legacy_lax and re.search(r"(?<![\w.])0[\d_]", core_text):
            return "leading-zero-number-accepted-by-legacy-parser", {}
        if legacy_lax and re.search(r"\d\.[A-Za-z_]", core_text):
            return "number-dot-identifier-accepted-by-legacy-parser", {}
        if legacy_lax and re.search(r"\b(importstr|importbin)\b|\d(else|then|in|for|if)\b", core_text):
            return "keyword-boundary-ignored-by-legacy-parser", {}
    if kind.startswith("accept:") and "|||" in core_text:
        return "text-block-edge-case-" + ("rejected" if kind.endswith("legacy=False") else "accepted") + "-by-legacy-parser", {}
    if silent and re.search(r"\bfor\b.*,\s*([\]}]|for\b|if\b)", core_text, re.S):
        return "comma-after-comprehension-accepted-by-syntax-tree-parser", {}
    if silent and re.search(r"\?\.", core_text):
        return "null-coalesce-operator-accepted-by-syntax-tree-parser", {}
    if silent and re.search(r"\+\s*\(", core_text) and "expected ':'" in irerr:
        return "plus-before-method-params-accepted-by-syntax-tree-parser", {}
    if silent and "object comprehension field" in irerr:
        return "object-comprehension-without-field-accepted-by-syntax-tree-parser", {}
    norm = RE_IDENT.sub("x", core_text)
    norm = re.sub(r"\d+", "1", norm)
    norm = re.sub(r"\s+", " ", norm).strip()
    return "other", {"core": norm}


def process(acc, w, items, stats_key):
    """items: iterable of (units, sep) ; run bulk, count, reduce disagreements"""
    texts = []
    meta = []
    for units, sep in items:
        texts.append(sep.join(units))
        meta.append((units, sep))
    i = 0
    for text, r in tokseq.bulk(w, texts):
        units, sep = meta[i]
        i += 1
        acc.inc("evaluations")
        acc.inc(stats_key)
        if "dead" in r:
            d = r["dead"]
            if "panic" in d:
                f, m = panic_sig(d["panic"])
                acc.violation({"oracle": "crash", "site": f, "msg": m}, {"text": text, "observed": d})
            else:
                acc.inconclusive.append({"text": text, "why": str(d)[:200]})
            continue
        if "rowan_panic" in r:
            # totality of the syntax-tree parser is C20's business; here it only means
            # oracle (3) cannot be evaluated for this text
            acc.inc("syntax_tree_parser_panicked")
        if r["ir"]:
            acc.inc("accepted_by_default_parser")
            acc.add("distinct", r["h"])
        ks = kinds_of(r)
        for k in ks:
            acc.inc("disagreements_raw")
            n = acc.n.get("reduced", 0)
            if n < 600:
                acc.inc("reduced")
                core = reduce_core(w, units, sep, k)
                core_text = sep.join(core)
            else:
                # budget exhausted: classify the unreduced text (still decided by the real parsers)
                core_text = text
            cls, feat = classify(w, core_text, k)
            if cls == "other" and core_text == text and acc.n.get("reduced_other", 0) < 2000:
                # an unreduced text that no class explains is reduced after all before it is reported
                acc.inc("reduced_other")
                core_text = sep.join(reduce_core(w, units, sep, k))
                cls, feat = classify(w, core_text, k)
            sig = {"oracle": k, "class": cls}
            sig.update(feat)
            acc.add("disagreement_classes", cls)
            acc.violation(sig, {"text": text[:400], "core": core_text[:400], "record": r})


def shard(idx, n, tier, seed, binary):
    acc = runner.Acc()
    rng = runner.rng_for(seed, "c06", idx)
    w = runner.Worker(binary, timeout=120)
    try:
        maxlen = 4 if tier == "quick" else 5
        process(acc, w, ((t, " ") for t in tokseq.shard_exhaustive(maxlen, idx, n)), "exhaustive_seqs")
        nr = 12000 if tier == "quick" else 200000
        process(acc, w, ((t, " ") for t in tokseq.random_seqs(rng, nr // n, 5, 10)), "random_seqs")
        process(acc, w, ((list(s), "") for s in tokseq.mutants(rng, nr // n)), "mutants")
        process(acc, w, ((list(s), "") for s in tokseq.hostile_texts(rng, nr // n)), "hostile_texts")
        # oracle (2): generated programs whose intended tree is known
        from ..gen import prog as pg
        from ..ref import jast
        ng = (6000 if tier == "quick" else 150000) // n
        for i in range(ng):
            g = pg.Gen(runner.rng_for(seed, "c06-gen", idx, i), ill=0.0, err=0.02)
            ast = g.program()
            src = jast.to_source(ast)
            want = jast.sexpr(ast)
            acc.inc("evaluations")
            acc.inc("generated_programs")
            d = w.call({"op": "parse", "code": src}, timeout=60)
            for parser in ("ir", "peg"):
                got = (d.get(parser) or {}).get("tree")
                if got == want:
                    continue
                if got is None:
                    acc.violation({"oracle": "intended-tree", "what": "rejected", "parser": parser},
                                  {"text": src, "core": src, "error": d.get(parser)})
                    continue
                cls = "other"
                if RE_UNARY_OVER_MUL.search(got) and not RE_UNARY_OVER_MUL.search(want):
                    cls = "unary-binds-looser-than-multiplicative-in-default-parser"
                elif parser == "ir" and RE_UNARY_OVER_MUL.search(got):
                    # a wanted -(a*b) elsewhere may mask it; confirm with the fully guarded text
                    d2 = w.call({"op": "parse", "code": jast.to_source(ast, guard_unary=True)}, timeout=60)
                    if (d2.get("ir") or {}).get("tree") == want:
                        cls = "unary-binds-looser-than-multiplicative-in-default-parser"
                acc.violation({"oracle": "intended-tree" if cls == "other" else "tree-differs", "class": cls, "parser": parser},
                              {"text": src, "core": src, "want": want[:800], "got": got[:800]})
            if (d.get("ir") or {}).get("tree") == want:
                acc.add("distinct", runner.h64(want))
        if idx == 0:
            process(acc, w, ((list(s), "") for s in tokseq.VALID_PROGRAMS), "valid_programs")
            # every valid program must be accepted by all three parsers
            for text, r in tokseq.bulk(w, tokseq.VALID_PROGRAMS):
                if not (r.get("ir") and r.get("peg") and r.get("rowan") == 0):
                    acc.inc("valid_program_not_accepted_by_all")
                    acc.add("valid_not_accepted", text[:60])
            acc.sample({"text": "local ; x", "note": "exhaustive token sequence"})
            acc.sample({"text": tokseq.VALID_PROGRAMS[3], "note": "valid program"})
    finally:
        w.close()
    return acc


def run(tier, seed, t0):
    bins = runner.build("rel")
    accs = runner.shard_map(shard, (tier, seed, bins["jv-worker"]))
    acc = runner.Acc()
    for a in accs:
        acc.merge(a)
    maxlen = 4 if tier == "quick" else 5
    return runner.finish(
        PROP, tier, seed, "exploration", acc, t0,
        rule="all token sequences of length <= %d over a %d-token alphabet (%d texts, exhaustive), random "
             "sequences of length 5-10 over an extended alphabet, character-level mutants of %d valid "
             "programs and hostile raw texts; distinct_nontrivial = distinct canonical trees (by hash) "
             "among the texts the default parser accepted"
             % (maxlen, len(tokseq.ALPHABET), tokseq.count_exhaustive(maxlen), len(tokseq.VALID_PROGRAMS)),
        assumptions=["the structure dumper renders every Expr variant (exhaustive match) and drops only spans",
                     "index chains are flattened by the dumper: (a.b).c and a.b.c are the same tree"],
        extra={"exhaustive_part": "token sequences up to length %d" % maxlen},
        exhaustive=False, min_events=10000)


def replay(path):
    w = json.load(open(path))["witness"]
    bins = runner.build("rel")
    wk = runner.Worker(bins["jv-worker"])
    for t in (w["core"], w["text"]):
        print(json.dumps({"text": t, "observed": wk.call({"op": "parse", "code": t})}, indent=1)[:3000])
    wk.close()
    return 0
