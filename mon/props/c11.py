"""C11 - stdlib string, encoding, parsing and hashing functions match their definitions.

Oracle: ports of the documented definitions (mon/ref/stdlib_ref.py) cross-checked with
Python's own hashlib / base64 / codecs, plus inverse laws evaluated on the real outputs.
All lengths and indexes are in Unicode code points.
"""
import itertools
import json

from .. import runner, sanit, stdcheck as S
from ..common import jval, jstr, outcome, strict_json, deep_equal
from ..ref import stdlib_ref as R

PROP = "C11"
ALPHA = ["a", "b", ",", " ", "é", "ß", "漢", "😀", "\u0301"]


def strings(tier, rng):
    out = ["", "a", "ab", "aXbXc", ",,", "a,b,,c", "  pad  ", "\t x \n", "é", "éé", "aéa", "漢😀", "😀😀", "a\u0301", "AbC", "ÀÉ",
           "abcabcabc", "aaa", "aaaa", "ababab", "a😀b😀c", "ßß", "x" * 12]
    for _ in range(400 if tier == "quick" else 5000):
        out.append("".join(rng.choice(ALPHA) for _ in range(rng.randrange(0, 13))))
    return list(dict.fromkeys(out))


def cases(tier, rng):
    ST = strings(tier, rng)
    out = []
    pats = ["", "a", "b", ",", "aa", "ab", "é", "😀", "a😀", "X", "abc", " "]
    for s in ST:
        L = len(s)
        out.append(("length", [s]))
        for frm, ln in ((0, 0), (0, 1), (0, L), (1, 2), (L, 1), (L + 3, 2), (1, L + 3), (-1, 2), (0, -1), (0.5, 1), (1, 1.5)):
            out.append(("substr", [s, float(frm), float(ln)]))
        for p in rng.sample(pats, 5):
            out.append(("split", [s, p]))
            for m in (-1.0, 0.0, 1.0, 2.0, float(L + 3)):
                out.append(("splitLimit", [s, p, m]))
                out.append(("splitLimitR", [s, p, m]))
            out.append(("findSubstr", [p, s]))
            out.append(("startsWith", [s, p]))
            out.append(("endsWith", [s, p]))
            out.append(("strReplace", [s, p, rng.choice(["", "Z", "é😀", p + p])]))
            out.append(("stripChars", [s, p]))
            out.append(("lstripChars", [s, p + " "]))
            out.append(("rstripChars", [s, "a" + p]))
        if s:
            sub = s[rng.randrange(len(s)):][:rng.randrange(1, 4)]
            out.append(("findSubstr", [sub, s]))
            out.append(("split", [s, sub]))
            out.append(("strReplace", [s, sub, "<>"]))
            out.append(("startsWith", [s, s[:2]]))
            out.append(("endsWith", [s, s[-2:]]))
        for fn in ("trim", "asciiUpper", "asciiLower", "stringChars", "codepoint", "isEmpty", "encodeUTF8", "md5", "sha1", "sha256",
                   "sha512", "sha3", "base64", "escapeStringJson", "escapeStringPython", "escapeStringBash", "escapeStringDollars",
                   "escapeStringXML", "parseInt", "parseOctal", "parseHex"):
            out.append((fn, [s]))
        out.append(("equalsIgnoreCase", [s, s.upper()]))
        out.append(("equalsIgnoreCase", [s, rng.choice(ST)]))
    # long strings written as concatenations (the evaluator keeps concatenations of >= 100 bytes as ropes): lengths,
    # offsets and code points must still be counted on the text, whatever its internal shape
    for _ in range(60 if tier == "quick" else 600):
        t = "".join(rng.choice(ALPHA + ["é", "漢", "😀", "x", "y"]) for _ in range(rng.randrange(40, 140)))
        c = S.JCat(t) if _ % 2 == 0 else S.JCat.shaped(t, rng)
        L = len(t)
        # a second text of the same length that differs from the first in one character, held as a rope of another shape:
        # every two-string function must decide on the texts, not on the pieces
        j = rng.randrange(L)
        t2 = t[:j] + ("q" if t[j] != "q" else "r") + t[j + 1:]
        c2, c3 = S.JCat.shaped(t2, rng), S.JCat.shaped(t, rng)
        for other in (c2, c3):
            out.append(("equalsIgnoreCase", [c, other]))
            out.append(("startsWith", [c, other]))
            out.append(("endsWith", [c, other]))
            out.append(("findSubstr", [other, c]))
            out.append(("strReplace", [c, other, "Z"]))
            out.append(("split", [c, other]))
            out.append(("stripChars", [c, other]))
        out.append(("startsWith", [c, S.JCat.shaped(t[:L - 1], rng)]))
        out.append(("endsWith", [c, S.JCat.shaped(t[1:], rng)]))
        out.append(("splitLimit", [c, t[L // 3:L // 3 + 1], float(rng.randrange(-1, 4))]))
        out.append(("splitLimitR", [c, t[L // 3:L // 3 + 1], float(rng.randrange(-1, 4))]))
        out.append(("lstripChars", [c, S.JCat.shaped(t[:L // 2], rng)]))
        out.append(("rstripChars", [c, S.JCat.shaped(t[L // 2:], rng)]))
        out.append(("base64", [c]))
        out.append(("sha256", [c2]))
        out.append(("asciiLower", [c2]))
        out.append(("escapeStringBash", [c2]))
        out.append(("parseJson", [S.JCat.shaped(json.dumps({"k": t, "v": [1, t2]}), rng)]))
        out.append(("length", [c]))
        out.append(("stringChars", [c]))
        out.append(("substr", [c, float(rng.randrange(0, L)), float(rng.randrange(0, 20))]))
        out.append(("findSubstr", [t[L // 2:L // 2 + 2], c]))
        out.append(("split", [c, rng.choice([",", "é", "a", "😀"])]))
        out.append(("strReplace", [c, t[5:7], "Z"]))
        out.append(("startsWith", [c, t[:3]]))
        out.append(("endsWith", [c, t[-3:]]))
        out.append(("asciiUpper", [c]))
        out.append(("encodeUTF8", [c]))
        out.append(("md5", [c]))
        out.append(("codepoint", [S.JCat(t[:1] * 1)]))
        out.append(("stripChars", [c, "ab "]))
        out.append(("equalsIgnoreCase", [c, t.upper()]))
        out.append(("escapeStringJson", [c]))
    # escape functions on strings over the characters each of them treats specially: every string of
    # length <= 2 (each special alone, every ordered pair - a fast path may look for only some of them)
    # plus random longer ones
    esc_alpha = ["<", ">", "&", '"', "'", "$", "\\", "\n", "\t", "\r", "\x01", "\x7f", "a", "é", " ", "/", "😀"]
    esc = [""] + esc_alpha + [a + b for a in esc_alpha for b in esc_alpha]
    for _ in range(300 if tier == "quick" else 4000):
        esc.append("".join(rng.choice(esc_alpha) for _ in range(rng.randrange(3, 9))))
    for s in dict.fromkeys(esc):
        for fn in ("escapeStringJson", "escapeStringPython", "escapeStringBash", "escapeStringDollars", "escapeStringXML"):
            out.append((fn, [s]))
    # code points
    for n in [0, 9, 10, 32, 65, 127, 128, 255, 256, 0x7FF, 0x800, 0xD7FF, 0xD800, 0xDFFF, 0xE000, 0xFFFF, 0x10000, 0x1F600, 0x10FFFF,
              0x110000, -1, 65.5, 1e10]:
        out.append(("char", [float(n)]))
    for n in [0, 65, 0xE9, 0x6F22, 0x1F600]:
        out.append(("codepoint", [chr(n)]))
    # numeric strings
    nums = ["0", "1", "-1", "-0", "007", "123", "9007199254740991", "9007199254740992", "9007199254740993", "99999999999999999999",
            "+1", " 1", "1 ", "1.5", "1e3", "", "-", "--1", "12a", "a12", "0x10", "１２", "٣", "1_000", "-123456789"]
    for s in nums:
        out.append(("parseInt", [s]))
    for s in ["0", "7", "10", "777", "8", "-7", "", "0o7", "07", "1" * 20, "377", "１"]:
        out.append(("parseOctal", [s]))
    for s in ["0", "f", "F", "ff", "FF", "fF", "10", "g", "-f", "", "0xff", "1fffffffffffff", "20000000000000", "deadBEEF", "ｆ"]:
        out.append(("parseHex", [s]))
    # byte arrays
    barrs = [[], [0.0], [65.0], [255.0], [0xC3, 0xA9], [0xE6, 0xBC, 0xA2], [0xF0, 0x9F, 0x98, 0x80], [0xFF], [0xC3], [0xC3, 0x28],
             [0xED, 0xA0, 0x80], [0xF8, 0x88, 0x80, 0x80, 0x80], [256.0], [-1.0], [1.5], ["a"], [72, 105], list(range(0, 256, 7))]
    for b in barrs:
        b = [float(x) if isinstance(x, (int, float)) else x for x in b]
        out.append(("decodeUTF8", [b]))
        out.append(("base64", [b]))
    for s in ["", "QQ==", "QUI=", "QUJD", "w6k=", "8J+YgA==", "QQ", "Q", "QQ=", "====", "QU JD", "QUJD\n", "!!!!", "QUJDRA==", "/+8=", "_-8=", "AAAA", "////"]:
        out.append(("base64Decode", [s]))
        out.append(("base64DecodeBytes", [s]))
    # wrong types
    wrong = [None, True, 1.0, [], {}, ["a"]]
    for fn in ("substr", "split", "strReplace", "findSubstr", "startsWith", "endsWith", "stripChars", "asciiUpper", "asciiLower",
               "stringChars", "codepoint", "char", "parseInt", "parseHex", "parseOctal", "encodeUTF8", "decodeUTF8", "md5", "sha256",
               "base64Decode", "isEmpty", "trim", "equalsIgnoreCase"):
        ar = {"substr": 3, "split": 2, "strReplace": 3, "findSubstr": 2, "startsWith": 2, "endsWith": 2, "stripChars": 2,
              "equalsIgnoreCase": 2}.get(fn, 1)
        for v in wrong:
            args = [v] + (["a", "b"][:ar - 1] if fn != "substr" else [0.0, 1.0])
            out.append((fn, args))
            if ar >= 2 and fn != "substr":
                out.append((fn, ["abc", v] + (["b"] if ar == 3 else [])))
    return out


INVERSES = [
    ("decodeUTF8(encodeUTF8(s))", "std.decodeUTF8(std.encodeUTF8(%s)) == %s"),
    ("base64Decode(base64(ascii))", None),
    ("base64DecodeBytes(base64(bytes))", "std.base64DecodeBytes(std.base64(std.encodeUTF8(%s))) == std.encodeUTF8(%s)"),
    ("join(split)", "std.join(',', std.split(%s, ',')) == %s"),
    ("stringChars-join", "std.join('', std.stringChars(%s)) == %s"),
    ("length=len(stringChars)", "std.length(%s) == std.length(std.stringChars(%s))"),
    ("char(codepoint)", "std.join('', [std.char(std.codepoint(c)) for c in std.stringChars(%s)]) == %s"),
    ("substr-concat", "std.substr(%s, 0, 2) + std.substr(%s, 2, 1000) == " ),
    ("parseJson(manifestJson(s))", "std.parseJson(std.manifestJsonMinified(%s)) == %s"),
    ("parseJson(escapeStringJson(s))", "std.parseJson(std.escapeStringJson(%s)) == %s"),
    ("parseYaml(manifestJson(s))", "std.parseYaml(std.manifestJsonMinified(%s)) == %s"),
]

YAML_DOCS = [("1", 1.0), ("-1.5", -1.5), ("\"a\"", "a"), ("[1, 2, \"x\"]", [1.0, 2.0, "x"]), ("{\"a\": [1, {\"b\": null}], \"c\": true}", {"a": [1.0, {"b": None}], "c": True}),
             ("null", None), ("[]", []), ("{}", {}), ("\"é漢😀\"", "é漢😀"), ("[[], [[]], {\"k\": {}}]", [[], [[]], {"k": {}}]), ("\"1\"", "1"), ("\"true\"", "true"),
             ("{\"a\": 1e3}", {"a": 1000.0}), ("[0.5, -0, 12345678901234567890]", [0.5, 0.0, 12345678901234567890.0])]


CAST_JOBS = [
    "local b = std.encodeUTF8('é漢😀'); [std.decodeUTF8(b), std.length(b), b[0], std.decodeUTF8(b[0:2])]",
    "std.decodeUTF8([255])", "std.decodeUTF8([0xC3])", "std.decodeUTF8([0xED, 0xA0, 0x80])", "std.decodeUTF8([])",
    "local s = 'abc'; [std.encodeUTF8(s) == [97, 98, 99], std.decodeUTF8(std.encodeUTF8(s)) == s, s]",
    "std.base64DecodeBytes('/w==') + std.encodeUTF8('x')", "std.base64(std.base64DecodeBytes('w6k='))", "std.base64Decode('/w==')",
    "std.md5(std.decodeUTF8(std.encodeUTF8('é'))) + std.sha256('é')",
    "local b = std.encodeUTF8('aé'); std.reverse(b) + b[1:] + std.map(function(x) x + 1, b)",
    "std.join('', [std.decodeUTF8(std.encodeUTF8(c)) for c in std.stringChars('a😀b')])",
    "std.encodeUTF8(std.decodeUTF8([228, 184, 173])) == [228, 184, 173]",
    "local b = std.base64DecodeBytes('8J+YgA=='); [std.decodeUTF8(b), std.decodeUTF8(b[0:3])]",
]


def classify(fn, args, ref, got):
    """discriminating features of a disagreement (for known-finding signatures)"""
    import re
    if fn in ("escapeStringJson", "escapeStringPython") and ref[0] == "ok" and got[0] == "ok" and isinstance(got[1], str):
        raw = re.sub(r"\\u00([789])([0-9a-f])", lambda m: chr(int(m.group(1) + m.group(2), 16)), ref[1])
        if raw == got[1] and raw != ref[1]:
            return {"class": "DEL-or-C1-control-left-unescaped"}
    return {}


def shard(idx, n, tier, seed, binary):
    acc = runner.Acc()
    rng = runner.rng_for(seed, "c11")
    w = runner.Worker(binary, timeout=30)
    try:
        cs = cases(tier, rng)
        for i, (fn, args) in enumerate(cs):
            if i % n != idx:
                continue
            S.check_call(acc, w, PROP, fn, args, classify=classify)
        # inverse laws on the real outputs
        ST = strings(tier, rng)
        for i, s in enumerate(ST):
            if i % n != idx:
                continue
            lit = jstr(s)
            for name, tpl in INVERSES:
                if tpl is None:
                    if any(ord(c) > 127 for c in s):
                        continue
                    code = "std.base64Decode(std.base64(%s)) == %s" % (lit, lit)
                elif name == "substr-concat":
                    code = tpl % (lit, lit) + lit
                else:
                    code = tpl % (lit, lit)
                acc.inc("evaluations")
                cls, pay = outcome(w.call({"op": "eval", "code": code, "state_id": "s"}, timeout=30))
                if cls == "ok" and pay == "true":
                    acc.inc("inverse_laws_ok")
                    acc.distinct(code)
                elif cls in ("ok", "err"):
                    acc.violation({"oracle": "inverse-law", "law": name}, {"code": code, "observed": pay})
                else:
                    acc.inconclusive.append({"code": code, "why": cls})
        if idx == 0:
            for doc, want in YAML_DOCS:
                for fn in ("parseJson", "parseYaml"):
                    acc.inc("evaluations")
                    cls, pay = outcome(w.call({"op": "eval", "code": "std.%s(%s)" % (fn, jstr(doc))}))
                    if cls == "ok" and deep_equal(strict_json(pay), want):
                        acc.distinct(fn + doc)
                    else:
                        acc.violation({"oracle": "parser", "fn": fn}, {"doc": doc, "expected": want, "observed": pay})
            for bad in ["", "{", "[1,", "{\"a\"}", "nul", "[1 2]", "'a'", "{a: 1}", "01", "1.", "\"\\x\"", "[1,]", "NaN", "Infinity", "\"unterminated"]:
                acc.inc("evaluations")
                cls, pay = outcome(w.call({"op": "eval", "code": "std.parseJson(%s)" % jstr(bad)}))
                if cls == "ok":
                    acc.violation({"oracle": "parser", "fn": "parseJson", "what": "accepts-malformed"}, {"doc": bad, "observed": pay})
                elif cls == "err":
                    acc.distinct("bad" + bad)
            acc.sample({"call": "std.splitLimitR(\"a😀b😀c\", \"😀\", 1)", "expected": ["a😀b", "c"]})
    finally:
        w.close()
    return acc


def run(tier, seed, t0):
    bins = runner.build("rel")
    accs = runner.shard_map(shard, (tier, seed, bins["jv-worker"]))
    acc = runner.Acc()
    for a in accs:
        acc.merge(a)
    # the byte-array <-> string casts of the interner (cached UTF-8 validity, shared storage) under the monitors
    sanit.run_pass(acc, PROP, tier, seed, extra_items=[sanit.item(c) for c in CAST_JOBS],
                   quick={"asan": 120, "miri": 16}, thorough={"asan": 2400, "memcheck": 320, "miri": 128})
    return runner.finish(
        PROP, tier, seed, "exploration", acc, t0,
        rule="strings of length 0..12 over {a, b, ',', ' ', é, ß, 漢, 😀, combining mark} plus hand-picked ones (overlapping "
             "and repeating patterns) x the string functions with offsets from 0 to beyond the length, patterns that "
             "overlap, code points at every UTF-8/UTF-16 boundary, numeric strings around 2^53 and digit validity, byte "
             "arrays with invalid UTF-8, base64 texts valid and malformed, wrong-type arguments; inverse laws (encode/"
             "decode, split/join, chars, parseJson/manifestJson, parseYaml on JSON) on the real outputs. "
             "distinct_nontrivial = distinct calls / laws that agreed with the reference",
        assumptions=["hashlib, base64 and codecs are the standard digests / codecs", "the reference abstains for base64 of non-ASCII "
                     "strings, invalid UTF-8 decoding, empty split delimiters and values beyond 2^53 where implementations differ"],
        min_events=5000)


def replay(path):
    w = json.load(open(path))["witness"]
    wk = runner.Worker(runner.build("rel")["jv-worker"])
    code = w.get("call") or w.get("code")
    print(json.dumps({"code": code, "observed": wk.call({"op": "eval", "code": code}), "witness": w}, indent=1, default=str)[:3000])
    wk.close()
    return 0
