"""C07 - imports resolve, load and evaluate as specified (level: fault enumeration).

Observed: the log of a recording ImportResolver wrapper (ordered resolve / load events with
arguments and results), trace events emitted from inside every generated file, result events,
and for a sample the CLI with -J / JSONNET_PATH.
Workload: all import graphs over <= 3 files (edge = none / strict / lazy) laid out over the
importer directory and two library directories with shadowing copies, crossed with import kind
and path spelling; fault plans: fail the k-th resolve / k-th load for every k of the fault-free
log, then continue on the same state with (a) the same import again, (b) an unrelated import.
"""
import itertools
import json
import os
import shutil
import subprocess
import tempfile

from .. import runner
from ..common import outcome, strict_json, deep_equal, panic_sig

PROP = "C07"
DIRS = ["main", "lib1", "lib2"]
SPELLINGS = ["plain", "dot", "updown", "symlink", "symlink2", "absolute", "dirlink"]


class Layout:
    """files f0..f{n-1}; where[i] = list of dirs holding a copy of f<i>; edges[i] = list of
    (j, mode, kind, spelling) with mode strict|lazy"""

    def __init__(self, root, n, where, edges):
        self.root, self.n, self.where, self.edges = root, n, where, edges
        self.jpath = [os.path.join(root, "lib1"), os.path.join(root, "lib2")]

    def path(self, d, i):
        return os.path.join(self.root, d, "f%d.jsonnet" % i)

    def resolve(self, from_dir, i):
        """reference search order: importer-relative, then library path in priority order"""
        for d in [from_dir] + [x for x in ("lib1", "lib2")]:
            if d in self.where[i]:
                return d
        return None

    def spelled(self, from_dir, i, spelling):
        name = "f%d.jsonnet" % i
        if spelling == "plain":
            return name
        if spelling == "dot":
            return "./" + name
        if spelling == "updown":
            return "sub/../" + name
        if spelling == "symlink":
            return "ln_" + name
        if spelling == "symlink2":
            return "ln2_" + name
        if spelling == "dirlink":
            return "dl/" + name       # dl -> . : a symlinked directory in the middle of the path
        d = self.resolve(from_dir, i)
        return self.path(d if d else from_dir, i)

    def body(self, d, i):
        strict, lazy, eager = [], [], []
        for (j, mode, kind, sp) in self.edges[i]:
            e = "%s %s" % (kind, json.dumps(self.spelled(d, j, sp)))
            {"strict": strict, "lazy": lazy, "eager": eager}[mode].append(e)
        # eager imports are forced while the importing file itself is being evaluated
        pre = "".join("assert (%s) != null; " % e for e in eager)
        return ("%sstd.trace(%s, {id: %s, deps: [%s], lazy:: [%s]})"
                % (pre, json.dumps("F%d@%s" % (i, d)), json.dumps("f%d@%s" % (i, d)), ", ".join(strict), ", ".join(lazy)))

    def write(self):
        for d in DIRS:
            os.makedirs(os.path.join(self.root, d, "sub"), exist_ok=True)
            dl = os.path.join(self.root, d, "dl")
            if not os.path.lexists(dl):
                os.symlink(".", dl)
        for i in range(self.n):
            for d in self.where[i]:
                p = self.path(d, i)
                with open(p, "w") as f:
                    f.write(self.body(d, i))
                for ln, target in (("ln_f%d.jsonnet" % i, "f%d.jsonnet" % i), ("ln2_f%d.jsonnet" % i, "ln_f%d.jsonnet" % i)):
                    lp = os.path.join(self.root, d, ln)
                    if not os.path.lexists(lp):
                        os.symlink(target, lp)
        with open(os.path.join(self.root, "main", "other.jsonnet"), "w") as f:
            f.write("std.trace('OTHER', {other: true})")
        # a second importer with the same body as f0: a fresh file value over the same dependencies
        with open(os.path.join(self.root, "main", "f0b.jsonnet"), "w") as f:
            f.write(self.body("main", 0))

    def force_file(self, d, i, stack=()):
        """what evaluating file (d, i) itself needs: its eager imports (recursively); strict and
        lazy edges sit in fields that evaluation of the file does not touch"""
        if (d, i) in stack:
            raise Cycle()
        for (j, mode, kind, sp) in self.edges[i]:
            if mode != "eager":
                continue
            tgt = self.resolve(d, j)
            if tgt is None:
                raise Missing()
            if kind == "import":
                self.force_file(tgt, j, stack + ((d, i),))

    def expected(self, d, i, stack=()):
        """manifested value of file (d, i); raises Cycle / Missing"""
        if (d, i) in stack:
            raise Cycle()
        self.force_file(d, i, stack)
        deps = []
        for (j, mode, kind, sp) in self.edges[i]:
            if mode != "strict":
                continue
            tgt = self.resolve(d, j)
            if tgt is None:
                raise Missing()
            if kind == "import":
                deps.append(self.expected(tgt, j, stack + ((d, i),)))
            elif kind == "importstr":
                deps.append(self.body(tgt, j))
            else:
                deps.append([float(b) for b in self.body(tgt, j).encode("utf-8")])
        return {"id": "f%d@%s" % (i, d), "deps": deps}


class Cycle(Exception):
    pass


class Missing(Exception):
    pass


def graphs(tier, rng):
    """yield (n, where, edges)"""
    modes = [None, "strict", "lazy"]
    wheres = [["main"], ["lib1"], ["lib2"], ["main", "lib1"], ["lib1", "lib2"], ["main", "lib1", "lib2"], ["lib2", "main"], []]
    count = 0
    # 2 files: f0 -> f1 edges, f1 -> f0 / f1 -> f1 edges
    pairs3 = [(0, 1), (0, 2), (1, 0), (1, 2), (2, 0), (2, 1), (0, 0)]
    for states in itertools.product(modes, repeat=len(pairs3)):
        if states[0] is None and states[1] is None:
            continue   # f0 must import something
        count += 1
        for rep in range(2 if tier == "quick" else 12):
            r = runner.rng_for(1, "c07-layout", count, rep)
            where = [["main"], r.choice(wheres), r.choice(wheres)]
            edges = [[], [], []]
            for (a, b), st in zip(pairs3, states):
                if st is None:
                    continue
                kind = "import" if (a, b) in ((1, 0), (2, 0), (0, 0)) or r.random() < 0.7 else r.choice(["importstr", "importbin"])
                edges[a].append((b, st, kind, r.choice(SPELLINGS)))
            yield (3, where, edges)
    # imports forced during the evaluation of the importing file (eager), chains and cycles
    eager_shapes = [
        [[(1, "eager")], [], []], [[(1, "eager")], [(2, "eager")], []], [[(1, "strict")], [(2, "eager")], []],
        [[(1, "eager"), (2, "strict")], [(2, "eager")], []], [[(1, "eager")], [(0, "eager")], []],
        [[(1, "eager")], [(2, "eager")], [(1, "lazy")]], [[(1, "strict"), (2, "eager")], [], [(1, "eager")]],
        [[(1, "eager")], [(2, "strict")], [(0, "lazy")]], [[(2, "eager"), (1, "eager")], [(2, "eager")], []],
    ]
    for si, shape in enumerate(eager_shapes):
        for rep in range(3 if tier == "quick" else 20):
            r = runner.rng_for(1, "c07-eager", si, rep)
            where = [["main"], r.choice(wheres[:7]), r.choice(wheres[:7])]
            edges = [[(b, m, "import" if m == "eager" or r.random() < 0.7 else r.choice(["importstr", "importbin"]), r.choice(SPELLINGS))
                      for (b, m) in row] for row in shape]
            yield (3, where, edges)


def multi_spelling_cases():
    """the same file reached through every spelling, and through import + importstr + importbin"""
    out = []
    for where1 in (["main"], ["lib1"], ["lib2", "lib1"]):
        edges = [[(1, "strict", "import", sp) for sp in SPELLINGS] + [(1, "strict", "importstr", "dot"), (1, "strict", "importbin", "symlink")], []]
        out.append((2, [["main"], where1], edges))
        edges = [[(1, "strict", "import", "plain"), (1, "strict", "import", "symlink2")], [(0, "lazy", "import", "absolute")]]
        out.append((2, [["main"], where1], edges))
    return out


def run_job(w, lay, state_id, target, fault=None):
    job = {"op": "eval", "file": target, "jpath": lay.jpath, "state_id": state_id}
    if fault:
        job["fault"] = fault
    rec = w.call(job, timeout=60)
    cls, pay = outcome(rec)
    if cls == "ok":
        return ("ok", strict_json(pay)), rec
    if cls == "err":
        return ("error", pay["kind"]), rec
    return (cls, pay), rec


def same(a, b):
    return a[0] == b[0] and (a[0] != "ok" or deep_equal(a[1], b[1])) and (a[0] != "error" or a[1] == b[1])


def check_case(acc, w, root, spec, seq):
    n, where, edges = spec
    case_root = os.path.join(root, "c%d" % seq)
    lay = Layout(case_root, n, where, edges)
    lay.write()
    main = lay.path("main", 0)
    wit = {"where": where, "edges": edges, "root": case_root}
    sid = "s%d" % seq

    def bad(oracle, detail, **sig):
        s = {"oracle": oracle}
        s.update(sig)
        acc.violation(s, dict(wit, **detail))

    def crash(res, what):
        if res[0] in ("panic", "crash"):
            p = panic_sig(res[1]) if res[0] == "panic" else ("crash", "")
            bad("crash", {"during": what, "observed": res[1]}, site=p[0], msg=p[1])
            return True
        return False

    # expected outcome from the layout
    try:
        exp = ("ok", lay.expected("main", 0))
    except Cycle:
        exp = ("error", "InfiniteRecursionDetected")
    except Missing:
        exp = ("error", "ImportFileNotFound")
    acc.inc("evaluations")
    r0, rec0 = run_job(w, lay, sid, main)
    if crash(r0, "fault-free"):
        return
    if r0[0] in ("timeout", "harness"):
        acc.inconclusive.append({"case": wit, "why": r0[0]})
        return
    ok = True
    if exp[0] != r0[0] or (exp[0] == "ok" and not deep_equal(exp[1], r0[1])):
        bad("resolution-or-value", {"expected": exp, "observed": r0, "log": rec0.get("imports")}, expected=exp[0], got=r0[0])
        ok = False
    log0 = rec0.get("imports", [])
    # at most one successful load and one evaluation per canonical file per state
    loads = {}
    for ev in log0:
        if ev[0] == "load" and ev[2] == "ok":
            cp = os.path.realpath(ev[1])      # canonical file, whatever spelling the resolver handed back
            loads[cp] = loads.get(cp, 0) + 1
    for p, c in loads.items():
        if c > 1:
            bad("loaded-twice", {"path": p, "count": c, "log": log0})
            ok = False
    tr = {}
    for t in rec0.get("traces", []):
        tr[t[0]] = tr.get(t[0], 0) + 1
    for l, c in tr.items():
        if c > 1:
            bad("evaluated-twice", {"file": l, "count": c, "log": log0})
            ok = False
    acc.inc("resolver_events", len(log0))
    # the state stays usable: same import again = same result, nothing re-read
    acc.inc("evaluations")
    r1, rec1 = run_job(w, lay, sid, main)
    if not crash(r1, "second evaluation") and not same(r0, r1):
        bad("second-evaluation-differs", {"first": r0, "second": r1}, first=r0[0], second=r1[0])
        ok = False
    if r0[0] == "ok" and any(ev[0] == "load" and ev[2] == "ok" for ev in rec1.get("imports", [])):
        bad("reloaded-on-second-evaluation", {"log": rec1.get("imports")})
        ok = False
    w.call({"op": "drop_state", "state_id": sid})
    other = os.path.join(case_root, "main", "other.jsonnet")
    nres = sum(1 for ev in log0 if ev[0] == "resolve")
    nload = sum(1 for ev in log0 if ev[0] == "load")
    # fault plans
    for kind, total in (("resolve", nres), ("load", nload)):
        for k in range(1, total + 1):
            fsid = "%s-%s%d" % (sid, kind, k)
            acc.inc("evaluations")
            acc.inc("fault_runs")
            rf, recf = run_job(w, lay, fsid, main, fault={kind: k})
            if crash(rf, "fault %s#%d" % (kind, k)):
                ok = False
                continue
            if rf[0] == "ok" and r0[0] == "ok":
                # the failed call was needed in the fault-free run, so the failure must surface
                bad("fault-swallowed", {"fault": [kind, k], "observed": rf, "log": recf.get("imports")}, fault=kind)
                ok = False
            # (b) unrelated import on the same state behaves as in a fresh state
            acc.inc("evaluations")
            ro, _ = run_job(w, lay, fsid, other)
            if not crash(ro, "unrelated import after fault") and not (ro[0] == "ok" and ro[1] == {"other": True}):
                bad("state-unusable-after-fault", {"fault": [kind, k], "observed": ro}, fault=kind, step="unrelated-import")
                ok = False
            # (a) retry with faults cleared equals the fault-free run
            acc.inc("evaluations")
            rr, recr = run_job(w, lay, fsid, main)
            if not crash(rr, "retry after fault") and not same(r0, rr):
                stale = rr[0] == "error" and rr[1] == "ImportIo" and not any(ev[-1] == "FAULT" for ev in recr.get("imports", []))
                bad("retry-differs-from-fault-free", {"fault": [kind, k], "fault_free": r0, "retry": rr,
                                                       "log": recr.get("imports")}, fault=kind, fault_free=r0[0], retry=rr[0],
                    stale_injected_error_resurfaces=stale)
                ok = False
            # (a') the same dependencies through a fresh importer file: nothing the failed step touched
            # may be left half-initialised in the state (file cache entries, evaluating flags)
            acc.inc("evaluations")
            rb, recb = run_job(w, lay, fsid, os.path.join(case_root, "main", "f0b.jsonnet"))
            if not crash(rb, "fresh importer after fault") and not same(r0, rb):
                stale = rb[0] == "error" and rb[1] == "ImportIo" and not any(ev[-1] == "FAULT" for ev in recb.get("imports", []))
                bad("fresh-importer-differs-after-fault", {"fault": [kind, k], "fault_free": r0, "observed": rb,
                                                            "log": recb.get("imports")}, fault=kind, fault_free=r0[0], got=rb[0],
                    stale_injected_error_resurfaces=stale)
                ok = False
            w.call({"op": "drop_state", "state_id": fsid})
    if ok:
        acc.distinct(json.dumps([where, edges]))
        acc.inc("cases_ok_value" if r0[0] == "ok" else "cases_ok_error")
    shutil.rmtree(case_root, ignore_errors=True)


def special_targets(acc, w, root):
    """missing, directory, non-UTF-8, empty targets; results are errors (never panics) and the
    state stays usable"""
    d = os.path.join(root, "special")
    os.makedirs(os.path.join(d, "adir"), exist_ok=True)
    with open(os.path.join(d, "bad.bin"), "wb") as f:
        f.write(b"\xff\xfe{}\x80")
    open(os.path.join(d, "empty.jsonnet"), "w").close()
    with open(os.path.join(d, "good.jsonnet"), "w") as f:
        f.write("{good: true}")
    cases = {
        "import 'missing.jsonnet'": "error", "importstr 'missing.txt'": "error", "importbin 'missing.bin'": "error",
        "import 'adir'": "error", "importstr 'adir'": "error", "importbin 'adir'": "error",
        "import 'bad.bin'": "error", "importstr 'bad.bin'": "error", "importbin 'bad.bin'": [255.0, 254.0, 123.0, 125.0, 128.0],
        "import 'empty.jsonnet'": "error", "importstr 'empty.jsonnet'": "", "importbin 'empty.jsonnet'": [],
        "import 'good.jsonnet'": {"good": True}, "[importstr 'good.jsonnet', importbin 'good.jsonnet'][0]": "{good: true}",
        "local a = import 'good.jsonnet', b = import './good.jsonnet'; [a, b]": [{"good": True}, {"good": True}],
        "import 'good.jsonnet' + 'x'": "error",
        "import 'syntax.jsonnet'": "error", "importstr 'syntax.jsonnet'": "{ a: ", "(import 'wraps_syntax.jsonnet').x": "error",
        "(import 'wraps_syntax.jsonnet').ok": 1.0, "(import 'wraps_bad.jsonnet').b": [255.0, 254.0, 123.0, 125.0, 128.0],
        "(import 'wraps_bad.jsonnet').i": "error",
    }
    with open(os.path.join(d, "syntax.jsonnet"), "w") as f:
        f.write("{ a: ")
    with open(os.path.join(d, "wraps_syntax.jsonnet"), "w") as f:
        f.write("{ ok: 1, x: import 'syntax.jsonnet' }")
    with open(os.path.join(d, "wraps_bad.jsonnet"), "w") as f:
        f.write("{ b: importbin 'bad.bin', i: import 'bad.bin' }")
    # the kind of error each failing target gives on a fresh state: a history must not change it
    fresh_kind = {}
    for code in cases:
        main = os.path.join(d, "m%d.jsonnet" % (hash(code) % 100000))
        with open(main, "w") as f:
            f.write(code)
        cls, pay = outcome(w.call({"op": "eval", "file": main}))
        if cls == "err":
            fresh_kind[code] = pay.get("kind")
    fwd = list(cases)
    for hist in (fwd, list(reversed(fwd)), fwd + fwd, list(reversed(fwd)) + fwd):
        sid = "special-%d" % len(hist)
        for i, code in enumerate(hist):
            main = os.path.join(d, "m%d.jsonnet" % (hash(code) % 100000))
            with open(main, "w") as f:
                f.write(code)
            acc.inc("evaluations")
            rec = w.call({"op": "eval", "file": main, "state_id": sid})
            cls, pay = outcome(rec)
            want = cases[code]
            if cls in ("panic", "crash"):
                acc.violation({"oracle": "crash", "target": code.split("'")[1] if "'" in code else code}, {"code": code, "observed": pay})
            elif want == "error":
                if cls != "err":
                    acc.violation({"oracle": "special-target", "expected": "error", "code": code}, {"code": code, "observed": pay})
                elif fresh_kind.get(code) is not None and pay.get("kind") != fresh_kind[code]:
                    acc.violation({"oracle": "error-depends-on-history", "code": code, "fresh": fresh_kind[code], "after_history": pay.get("kind")},
                                  {"code": code, "observed": pay, "history": hist[:i]})
                else:
                    acc.inc("special_errors")
                    acc.distinct("special:" + code)
            elif cls != "ok" or not deep_equal(strict_json(pay), want):
                acc.violation({"oracle": "special-target", "expected": "value", "code": code}, {"code": code, "observed": pay, "history": hist[:i]})
            else:
                acc.distinct("special:" + code)
        w.call({"op": "drop_state", "state_id": sid})


def cli_search_order(acc, cli, root):
    """right-most -J first, then JSONNET_PATH entries"""
    d = os.path.join(root, "cli")
    for sub in ("main", "j1", "j2", "e1", "e2"):
        os.makedirs(os.path.join(d, sub), exist_ok=True)
    with open(os.path.join(d, "main", "m.jsonnet"), "w") as f:
        f.write("import 'x.libsonnet'")
    for present in itertools.product([False, True], repeat=5):
        order = ["main", "j2", "j1", "e1", "e2"]     # expected priority with -J j1 -J j2, JSONNET_PATH=e1:e2
        for sub, pr in zip(order, present):
            p = os.path.join(d, sub, "x.libsonnet")
            if pr:
                with open(p, "w") as f:
                    f.write(json.dumps(sub))
            elif os.path.exists(p):
                os.unlink(p)
        want = next((s for s, pr in zip(order, present) if pr), None)
        env = dict(os.environ, JSONNET_PATH=os.path.join(d, "e1") + ":" + os.path.join(d, "e2"))
        p = subprocess.run([cli["jrsonnet"], "-J", os.path.join(d, "j1"), "-J", os.path.join(d, "j2"),
                            os.path.join(d, "main", "m.jsonnet")], capture_output=True, text=True, env=env, timeout=60)
        acc.inc("evaluations")
        acc.inc("cli_runs")
        got = json.loads(p.stdout) if p.returncode == 0 else None
        if p.returncode < 0 or "panicked" in p.stderr:
            acc.violation({"oracle": "crash", "where": "cli"}, {"present": present, "stderr": p.stderr[-300:]})
        elif got != want:
            acc.violation({"oracle": "cli-search-order", "expected": want, "got": got}, {"present": dict(zip(order, present)), "stderr": p.stderr[-300:]})
        else:
            acc.distinct("cli:" + repr(present))


def shard(idx, n, tier, seed, binary, cli):
    acc = runner.Acc()
    root = tempfile.mkdtemp(prefix="c07-")
    w = runner.Worker(binary)
    try:
        rng = runner.rng_for(seed, "c07")
        cases = multi_spelling_cases() + list(graphs(tier, rng))
        for i, spec in enumerate(cases):
            if i % n != idx:
                continue
            check_case(acc, w, root, spec, i)
        if idx == 0:
            special_targets(acc, w, root)
            acc.sample({"graph": {"where": cases[7][1], "edges": cases[7][2]}})
        if idx == 1 % n and cli:
            cli_search_order(acc, cli, root)
    finally:
        w.close()
        shutil.rmtree(root, ignore_errors=True)
    return acc


def run(tier, seed, t0):
    bins = runner.build("rel")
    cli = runner.build_cli()
    accs = runner.shard_map(shard, (tier, seed, bins["jv-worker"], cli))
    acc = runner.Acc()
    for a in accs:
        acc.merge(a)
    return runner.finish(
        PROP, tier, seed, "fault_enumeration", acc, t0,
        rule="all import graphs over 3 files (7 edge slots x {none, strict, lazy}, f0 importing at least one file) x "
             "2 (quick) / 12 (thorough) layouts over {importer dir, lib1, lib2} with shadowing copies, import kind "
             "{import, importstr, importbin} and spelling {plain, ./, sub/../, symlink, symlink-to-symlink, absolute, through a symlinked directory}; "
             "multi-spelling cases; for every case the fault-free run, a second evaluation on the same state, and one "
             "run per resolve and per load event of the fault-free log with that event failed, each followed on the "
             "same state by an unrelated import and a retry; special targets (missing, directory, non-UTF-8, empty); "
             "CLI -J / JSONNET_PATH priority over all 32 presence patterns. distinct_nontrivial = distinct "
             "(layout, graph) cases on which every oracle held",
        assumptions=["unreadable files are represented by injected load faults (the sandbox runs as root, chmod cannot deny)",
                     "history independence is checked on results; a file already loaded successfully may stay cached"],
        min_events=2000)


def replay(path):
    print(open(path).read()[:4000])
    return 0
