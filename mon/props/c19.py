"""C19 - formatting preserves the program.

Observed, through one worker: format(src) -> text or diagnostic; the evaluator parser's
tree of input and output; the comment tokens of both (real lexer); the evaluation results
of both.  Oracle: on Ok the output is accepted by the evaluator's parser, trees are equal
after dropping spans and normalising the two documented sugar pairs, the comment token
sequence (kind + text) is identical in order, and the evaluation outcome is identical.
A diagnostic is always acceptable.
"""
import json
import re

from .. import runner, tokseq, fmtlib
from ..common import outcome, panic_sig

PROP = "C19"
INDENTS = (0, 2, 4)


def verdict(w, text, indent):
    """-> (kind, detail): ok | declined | not-parsable | tree-differs | comments-differ |
    outcome-differs | panic | inconclusive"""
    r = w.call({"op": "fmt", "code": text, "indent": indent, "passes": 1}, timeout=60)
    if "panic" in r:
        return "panic", r["panic"]
    if "passes" not in r:
        return "inconclusive", r
    p = r["passes"][0]
    if "err" in p:
        return "declined", None
    out = p["ok"]
    a = w.call({"op": "parse", "code": text, "lex": True}, timeout=60)
    b = w.call({"op": "parse", "code": out, "lex": True}, timeout=60)
    if "ir" not in a or "ir" not in b:
        return "inconclusive", [a, b]
    if "tree" not in a["ir"]:
        return "declined", None  # not a valid program for the evaluator: out of scope
    if "tree" not in b["ir"]:
        return "not-parsable", {"output": out, "error": b["ir"]}
    try:
        same = fmtlib.same_program(a["ir"]["tree"], b["ir"]["tree"])
    except Exception as e:  # reader failure = monitor defect, never a verdict
        return "inconclusive", "sexpr reader: %r" % (e,)
    if not same:
        return "tree-differs", {"output": out, "in_tree": a["ir"]["tree"][:600], "out_tree": b["ir"]["tree"][:600]}
    ca, cb = fmtlib.comments_of(a["tokens"]), fmtlib.comments_of(b["tokens"])
    if ca != cb:
        return "comments-differ", {"output": out, "in": ca[:12], "out": cb[:12]}
    return "ok", out


def evaluate_both(acc, w, text, out):
    ra = outcome(w.call({"op": "eval", "code": text}, timeout=60))
    rb = outcome(w.call({"op": "eval", "code": out}, timeout=60))
    if ra[0] in ("timeout", "harness") or rb[0] in ("timeout", "harness"):
        return None
    ka = (ra[0], ra[1] if ra[0] == "ok" else (ra[1].get("kind") if isinstance(ra[1], dict) else None))
    kb = (rb[0], rb[1] if rb[0] == "ok" else (rb[1].get("kind") if isinstance(rb[1], dict) else None))
    return ka == kb, ka, kb


def reduce_failure(w, text, indent, kind):
    toks = [t[3] for t in w.call({"op": "lex", "code": text}).get("tokens", [])]
    if not toks or "".join(toks) != text:
        return text
    return "".join(tokseq.ddmin(toks, lambda c: verdict(w, "".join(c), indent)[0] == kind, max_calls=400))


GLUED_SPECS = re.compile(r"^\s*for [^\n]*?[A-Za-z0-9_](?:if|for) |^\s*for [^\n]*(?://|#)[^\n]*\b(?:if|for) ", re.M)


def features(core, kind, det):
    f = []
    if kind == "not-parsable" and isinstance(det, dict) and GLUED_SPECS.search(det.get("output", "")):
        # decided on the output, before anything the input may contain besides (comments ...)
        return "object-comprehension-specs-glued"
    if re.search(r"(//|#)[^\n]*\n?[\s,]*[)\]}]", core):
        f.append("line-comment-before-closing-bracket")
    elif re.search(r"(//|#)", core):
        f.append("line-comment")
    if re.search(r"/\*", core):
        f.append("block-comment")
    if "tailstrict" in core and isinstance(det, dict) and "tailstrict" not in det.get("output", "tailstrict"):
        f.append("tailstrict-dropped")
    if "|||" in core:
        f.append("crlf-text-block" if "\r\n" in core else "text-block")
    if re.search(r"\d\s*\.\s*[A-Za-z_]", core) and not f:
        f.append("field-access-on-number-literal")
    return "+".join(f) or "no-comment"


def check_program(acc, w, text, origin, ncomments):
    for indent in INDENTS:
        acc.inc("evaluations")
        kind, det = verdict(w, text, indent)
        acc.inc("verdict_" + kind)
        if kind == "ok":
            if indent == 2:
                ev = evaluate_both(acc, w, text, det)
                acc.inc("evaluations")
                if ev is not None and not ev[0]:
                    acc.violation({"oracle": "outcome-differs"},
                                  {"text": text, "output": det, "in": ev[1], "out": ev[2]})
                    continue
            acc.add("distinct", runner.h64(text + str(indent)))
            if ncomments:
                acc.inc("programs_with_comments_preserved")
        elif kind in ("declined",):
            pass
        elif kind == "inconclusive":
            acc.inconclusive.append({"text": text[:200], "why": str(det)[:300]})
        elif kind == "panic":
            f, m = panic_sig(det)
            acc.violation({"oracle": "panic", "site": f, "msg": m}, {"text": text, "indent": indent})
        else:
            if origin == "supported-comment-position":
                core = text
            elif acc.n.get("reduced", 0) < 200:
                acc.inc("reduced")
                core = reduce_failure(w, text, indent, kind)
            else:
                core = text
            k2, d2 = verdict(w, core, indent)
            if origin == "supported-comment-position":
                sig = {"oracle": kind + "@supported-comment-position"}
                if kind == "comments-differ" and isinstance(det, dict):
                    a = w.call({"op": "lex", "code": text}).get("tokens", [])
                    b = w.call({"op": "lex", "code": det.get("output", "")}).get("tokens", [])
                    if fmtlib.respaced(fmtlib.comments_of(a)) == fmtlib.comments_of(b):
                        sig["class"] = "blank-inserted-after-comment-marker"
                acc.violation(sig, {"text": text, "indent": indent, "result": det})
                continue
            acc.violation({"oracle": kind, "features": features(core, kind, d2 if k2 == kind else det)},
                          {"text": text, "core": core, "indent": indent, "core_result": d2, "result": det})


def shard(idx, n, tier, seed, binary):
    acc = runner.Acc()
    rng = runner.rng_for(seed, "c19", idx)
    w = runner.Worker(binary, timeout=120)
    try:
        corpus = fmtlib.corpus() + fmtlib.wide_programs()
        # every token sequence the default parser accepts is a valid program too
        maxlen = 4 if tier == "quick" else 5
        acc_seq = []
        for text, r in tokseq.bulk(w, (" ".join(t) for t in tokseq.shard_exhaustive(maxlen, idx, n))):
            if r.get("ir"):
                acc_seq.append(text)
        for t in acc_seq:
            check_program(acc, w, t, "token-seq", 0)
        for t in fmtlib.generated(seed, idx, (4000 if tier == "quick" else 80000) // n):
            check_program(acc, w, t, "generated", 0)
        for t in runner.chunks(corpus, idx, n):
            check_program(acc, w, t, "corpus", 0)
            if "\n" in t:
                check_program(acc, w, t.replace("\n", "\r\n"), "corpus-crlf", 0)
            toks = w.call({"op": "lex", "code": t}).get("tokens", [])
            for d, nc in fmtlib.decorate(t, toks, rng, 8 if tier == "quick" else 60):
                check_program(acc, w, d, "decorated", nc)
        for t in runner.chunks(fmtlib.supported_comment_programs() + fmtlib.supported_comment_programs(unspaced=True), idx, n):
            check_program(acc, w, t, "supported-comment-position", 1)
            acc.inc("supported_comment_position_programs")
        acc.sample({"text": corpus[idx % len(corpus)]})
    finally:
        w.close()
    return acc


def run(tier, seed, t0):
    bins = runner.build("rel")
    accs = runner.shard_map(shard, (tier, seed, bins["jv-worker"]))
    acc = runner.Acc()
    for a in accs:
        acc.merge(a)
    return runner.finish(
        PROP, tier, seed, "exploration", acc, t0,
        rule="valid programs: every token sequence up to length 4/5 accepted by the default parser, a "
             "corpus of %d hand-written programs covering the constructs named by the property, %d "
             "near-100-column programs, each also decorated with //, # and /* */ comments at token "
             "boundaries (one at a time and at every boundary) x indents {tabs,2,4}; "
             "distinct_nontrivial = distinct (program, indent) pairs whose formatted text re-parsed to "
             "the same tree with the same comments (and, for indent 2, evaluated to the same outcome)"
             % (len(fmtlib.corpus()), len(fmtlib.wide_programs())),
        assumptions=["sugar normalisation covers exactly local f = function / local f(...) and f: function / f(...):",
                     "a comment token's text is compared after dropping its trailing line end"],
        min_events=3000)


def replay(path):
    w = json.load(open(path))["witness"]
    wk = runner.Worker(runner.build("rel")["jv-worker"])
    print(json.dumps(verdict(wk, w.get("core", w["text"]), w.get("indent", 2)), indent=1, default=str)[:3000])
    wk.close()
    return 0
