"""C08 - arrays behave identically whatever their internal representation.

Workload: compositions of view-producing operations over small base arrays; each composed
array is probed at every index from -2 to len+2 and through length, equality, ordering,
iteration, std functions and manifestation.  Oracle: a Python list built alongside the
expression.  Builds: rel and chk (index arithmetic is where overflow checks bite).
"""
import itertools
import json
import re
import time

from .. import runner
from ..common import jval, outcome, strict_json, panic_sig, deep_equal

PROP = "C08"

# ----------------------------------------------------------------- bases
# (source, python list, element kind)


def bases(tier):
    B = []
    for n in (0, 1, 2, 3, 5):
        nums = [float(10 + i) for i in range(n)]
        B.append(("[%s]" % ", ".join("%d" % x for x in nums), nums, "num", "literal"))
        B.append(("std.range(10, %d)" % (9 + n), nums, "num", "range"))
        B.append(("std.makeArray(%d, function(i) i + 10)" % n, nums, "num", "makeArray"))
        B.append(("[x + 10 for x in std.range(0, %d)]" % (n - 1), nums, "num", "comp"))
        B.append(("std.map(function(x) x + 10, std.range(0, %d))" % (n - 1), nums, "num", "map"))
        s = "abcde"[:n]
        B.append(("std.stringChars(%s)" % jval(s), list(s), "str", "stringChars"))
        B.append(("std.encodeUTF8(%s)" % jval(s), [float(ord(c)) for c in s], "num", "encodeUTF8"))
        obj = "{%s}" % ", ".join("k%d: %d" % (i, 10 + i) for i in range(n))
        B.append(("std.objectValues(%s)" % obj, nums, "num", "objectValues"))
        B.append(("std.map(function(kv) kv.value, std.objectKeysValues(%s))" % obj, nums, "num", "objectKeysValues"))
        B.append(("std.filter(function(x) x >= 10, std.range(5, %d))" % (9 + n), nums, "num", "filter"))
        # elements that are themselves arrays / objects, in eagerly built representations
        nested = [[x] for x in nums]
        B.append(("std.parseJson(%s)" % jval(json.dumps(nested)), nested, "nested", "parseJson"))
        B.append(("std.sort(%s, function(x) x[0])" % jval(nested), nested, "nested", "sort-keyF"))
        B.append(("std.filter(function(x) true, %s)" % jval(nested), nested, "nested", "filter-nested"))
        B.append(("std.repeat([10], %d)" % n, [10.0] * n, "num", "repeat"))
    return B


def big_bases():
    out = []
    for n in (998, 999, 1000, 1001, 1002):
        out.append(("std.range(1, %d)" % n, [float(i) for i in range(1, n + 1)], "num", "range"))
    return out


# ----------------------------------------------------------------- operations
# each op: name, applicable(kind, lst) , source builder, python function

IDX = [None, -3, -1, 0, 1, 2, 4, 7]
STEPS = [None, 1, 2, 3]


def slice_ops(reduced=False):
    combos = list(itertools.product(IDX, IDX, STEPS))
    if reduced:
        combos = [c for i, c in enumerate(combos) if i % 7 == 0]
    for s, e, st in combos:
        def src(a, s=s, e=e, st=st):
            p = [("" if v is None else str(v)) for v in (s, e, st)]
            return "(%s)[%s:%s:%s]" % (a, p[0], p[1], p[2])

        def py(l, s=s, e=e, st=st):
            return l[slice(s, e, st)]
        yield ("slice", src, py)


def ops(tier, reduced=False):
    O = list(slice_ops(reduced))
    O.append(("reverse", lambda a: "std.reverse(%s)" % a, lambda l: l[::-1]))
    for k in (0, 1, 2, 3):
        O.append(("repeat", lambda a, k=k: "std.repeat(%s, %d)" % (a, k), lambda l, k=k: l * k))
    for other, ol in (("[]", []), ("[7]", [7.0]), ("std.range(1, 3)", [1.0, 2.0, 3.0])):
        O.append(("concat", lambda a, o=other: "(%s + %s)" % (a, o), lambda l, ol=ol: l + ol))
        O.append(("concat", lambda a, o=other: "(%s + %s)" % (o, a), lambda l, ol=ol: ol + l))
    O.append(("map", lambda a: "std.map(function(x) [x], %s)" % a, lambda l: [[x] for x in l]))
    O.append(("mapWithIndex", lambda a: "std.mapWithIndex(function(i, x) [i, x], %s)" % a,
              lambda l: [[float(i), x] for i, x in enumerate(l)]))
    O.append(("filter", lambda a: "std.filter(function(x) x != 11 && x != 'b', %s)" % a,
              lambda l: [x for x in l if x != 11.0 and x != "b"]))
    O.append(("comp", lambda a: "[x for x in %s]" % a, lambda l: list(l)))
    O.append(("flatten", lambda a: "std.flattenArrays([%s, %s])" % (a, a), lambda l: l + l))
    O.append(("join", lambda a: "std.join([], [%s, [0], %s])" % (a, a), lambda l: l + [0.0] + l))
    for i in (0, 1, 4):
        O.append(("removeAt", lambda a, i=i: "std.removeAt(%s, %d)" % (a, i),
                  lambda l, i=i: l[:i] + l[i + 1:]))
    # steps near the limits of the index arithmetic (the documented bound is 2^31 - 1): a composition of two such views
    # multiplies / adds them
    for s, st in ((None, 65536), (1, 65536), (None, 2147483647), (2, 46341), (None, 1000)):
        def srcb(a, s=s, st=st):
            return "(%s)[%s::%d]" % (a, "" if s is None else s, st)
        O.append(("slice-bigstep", srcb, lambda l, s=s, st=st: l[slice(s, None, st)]))
    for s, e, st in ((1, None, None), (None, -1, None), (0, 3, 2), (-2, None, 1)):
        def src(a, s=s, e=e, st=st):
            return "std.slice(%s, %s, %s, %s)" % (a, jval(s), jval(e), jval(st))
        O.append(("std.slice", src, lambda l, s=s, e=e, st=st: l[slice(s, e, st)]))
    return O


def hashable(x):
    if isinstance(x, dict):
        return tuple(sorted((k, hashable(v)) for k, v in x.items()))
    return tuple(hashable(i) for i in x) if isinstance(x, list) else x


def compositions(tier, rng):
    """yield (source, pylist, kind, chain-names)"""
    B = bases(tier)
    O = ops(tier)
    depth1 = []
    for src, lst, kind, bname in B:
        yield (src, lst, kind, (bname,))
        for name, fs, fp in O:
            if kind == "str" and name in ("removeAt",) and False:
                continue
            s1, l1 = fs(src), fp(lst)
            depth1.append((s1, l1, kind, (bname, name)))
            yield depth1[-1]
    # depth 2: exhaustive over a de-duplicated depth-1 layer (one representative per distinct
    # (chain names, resulting list)) in quick; everything in thorough
    seen = set()
    layer = []
    for c in depth1:
        key = (c[3], hashable(c[1]))
        if key in seen:
            continue
        seen.add(key)
        layer.append(c)
    if tier == "quick":
        layer = [c for i, c in enumerate(layer) if True]
        rng.shuffle(layer)
        layer = layer[:300]
    O2 = ops(tier, reduced=True)
    for s1, l1, kind, chain in layer:
        for name, fs, fp in O2:
            yield (fs(s1), fp(l1), kind, chain + (name,))
    if tier == "thorough":
        # random depth 3 and 4
        pool = layer
        for _ in range(150000):
            s, l, kind, chain = rng.choice(pool)
            for _d in range(rng.choice((2, 3))):
                name, fs, fp = rng.choice(O)
                s, l, chain = fs(s), fp(l), chain + (name,)
                if len(l) > 200:
                    break
            yield (s, l, kind, chain)
    # around the 1000-element concatenation threshold
    for src, lst, kind, bname in big_bases():
        for other, ol in (("[0]", [0.0]), ("std.range(1, 3)", [1.0, 2.0, 3.0]),
                          ("std.range(1, 500)", [float(i) for i in range(1, 501)])):
            for a, la, b, lb in ((src, lst, other, ol), (other, ol, src, lst)):
                cs, cl = "(%s + %s)" % (a, b), la + lb
                yield (cs, cl, kind, (bname, "concat-big"))
                yield ("std.reverse(%s)" % cs, cl[::-1], kind, (bname, "concat-big", "reverse"))
                yield ("(%s)[995:1005:3]" % cs, cl[995:1005:3], kind, (bname, "concat-big", "slice"))
                yield ("(%s)[1:][998:]" % cs, cl[1:][998:], kind, (bname, "concat-big", "slice", "slice"))


STRUCT_RE = re.compile(r"\b([A-Z][A-Za-z]+Array|PickObject[A-Za-z]+)\b")


def check_array(acc, w, build, src, lst, kind, chain):
    L = len(lst)
    plain = jval(lst)
    case = {"expr": src, "expected": lst if L <= 12 else "<%d elements>" % L, "chain": list(chain),
            "build": build}

    def bad(oracle, probe, observed, extra=None):
        sig = {"oracle": oracle, "probe": probe, "last_op": chain[-1]}
        if extra:
            sig.update(extra)
        acc.violation(sig, dict(case, probe=probe, observed=observed))

    def call(code, **kw):
        acc.inc("evaluations")
        rec = w.call(dict({"op": "eval", "code": code, "state_id": "s"}, **kw))
        return outcome(rec) + (rec,)

    ok = True
    # 1. length + representation chain
    cls, pay, rec = call("local a = %s; a" % src, repr=True)
    if cls in ("timeout", "harness"):
        acc.inconclusive.append({"case": case, "why": cls})
        return
    if cls in ("panic", "crash"):
        p = panic_sig(pay) if cls == "panic" else ("crash", "")
        bad("crash", "manifest", pay, {"site": p[0], "msg": p[1]})
        return
    if cls == "err":
        bad("unexpected-error", "manifest", pay)
        return
    rep = tuple(STRUCT_RE.findall(rec.get("repr", "")))[:4]
    acc.add("repr_chains", ">".join(rep))
    for r in rep:
        acc.add("repr_kinds", r)
    got = strict_json(pay)
    if not deep_equal(got, lst):
        bad("value", "manifest", got if len(str(got)) < 300 else str(got)[:300])
        ok = False
    # 2. non-erroring probes in one program
    idx = list(range(L)) if L <= 12 else [0, 1, L // 2, L - 2, L - 1]
    prog = ("local a = %s, p = %s; {len: std.length(a), elems: [%s], eqL: a == p, eqR: p == a, "
            "ne: a != p, lt: a < p, le: a <= p, gt: a > p, ge: p >= a, ts: std.toString(a) == std.toString(p), "
            "comp: [x for x in a] == p, rev: std.reverse(a) == std.reverse(p), "
            "cat: a + a == p + p, sl: a[1:] == p[1:], cnt: std.length(std.filter(function(x) true, a)), "
            "fold: std.foldl(function(acc, x) acc + 1, a, 0), mj: std.manifestJsonMinified(a) == std.manifestJsonMinified(p), "
            "mem: %s}"
            % (src, plain, ", ".join("a[%d]" % i for i in idx),
               ("std.member(a, p[0])" if L else "true")))
    cls, pay, rec = call(prog)
    if cls in ("timeout", "harness"):
        acc.inconclusive.append({"case": case, "why": cls})
        return
    if cls in ("panic", "crash"):
        p = panic_sig(pay) if cls == "panic" else ("crash", "")
        bad("crash", "probes", pay, {"site": p[0], "msg": p[1]})
        return
    if cls == "err":
        bad("unexpected-error", "probes", pay)
        return
    got = strict_json(pay)
    exp = {"len": float(L), "elems": [lst[i] for i in idx], "eqL": True, "eqR": True, "ne": False,
           "lt": False, "le": True, "gt": False, "ge": True, "ts": True, "comp": True, "rev": True,
           "cat": True, "sl": True, "cnt": float(L), "fold": float(L), "mj": True, "mem": True}
    for k, v in exp.items():
        if not deep_equal(got.get(k), v):
            bad("value", k, got.get(k))
            ok = False
    # 2b. library consumers: the same call on the view `a` and on the plainly written array `p` gives the same result
    #     (several of them ask the representation whether it is empty / cheap / how long it is in their own way)
    consumers = [
        "std.manifestYamlDoc({k: %s})", "std.manifestYamlDoc(%s)", "std.manifestYamlDoc({k: [%s]}, indent_array_in_object=true)",
        "std.manifestJsonEx({k: %s}, ' ')", "std.manifestPython(%s)", "std.manifestTomlEx({k: %s}, ' ')", "std.toString({k: %s})",
        "std.minArray(%s, onEmpty='E')", "std.maxArray(%s, onEmpty='E')", "std.sort(%s)", "std.set(%s)", "std.uniq(%s)", "std.sum(%s + [0])",
        "std.flattenArrays([%s, %s])", "std.prune([%s, [], null])", "std.any(std.map(function(x) x == null, %s))", "std.all(std.map(function(x) x != null, %s))",
        "std.find(null, %s)", "std.count(%s, null)", "std.contains(%s, null)", "std.join([], [%s, %s])", "std.deepJoin(std.map(std.toString, %s))",
        "std.mapWithIndex(function(i, x) i, %s)", "std.foldr(function(x, acc) acc + 1, %s, 0)", "std.slice(%s, 0, null, 2)", "std.removeAt(%s + [0], 0)",
        "std.avg(%s + [1])", "std.type(%s)", "std.isArray(%s)", "std.length(std.filterMap(function(x) true, function(x) x, %s))", "std.lines(std.map(std.toString, %s))",
        "std.equals(%s, %s)", "std.manifestJson(%s)", "std.objectValues({a: %s})[0]", "std.get({a: %s}, 'a')", "std.assertEqual(%s, %s)",
        "%s == std.filter(function(x) true, %s)", "std.filter(function(x) true, %s) != std.set(%s, function(x) std.toString(x))",
        "std.count(std.filter(function(x) true, [%s, %s]), std.filter(function(x) true, %s))",
        "std.repeat(%s, 2)", "std.reverse(%s)", "[std.length(%s[i:]) for i in [0, 1, 100]]", "std.mergePatch({a: 0}, {a: %s}).a",
        "[std.member(%s, x) for x in [2.5, 0.5, -1, 1e9, 1.0000001, 9.999, 'a', null, [1]]]", "[std.count(%s, x) for x in [2.5, 10.5, -0.5, 'b', [1]]]",
        "[std.find(x, %s) for x in [2.5, 1.5, 3.0000001, 'zz']]", "[std.contains(%s, x) for x in [1.5, 2.5, 998.5]]",
        "std.manifestXmlJsonml(['t', {}] + std.map(std.toString, %s))", "std.manifestIni({main: {k: std.map(std.toString, %s)}, sections: {}})",
    ]
    def side(nm, which=None):
        """all consumers in one program (which=None) or one of them; -> (class, payload-or-kind)"""
        body = ("{%s}" % ", ".join("c%d: %s" % (i, c.replace("%s", nm)) for i, c in enumerate(consumers))) if which is None \
            else consumers[which].replace("%s", nm)
        cls, pay, rec = call("local a = %s, p = %s; %s" % (src, plain, body))
        if cls in ("panic", "crash"):
            ps = panic_sig(pay) if cls == "panic" else ("crash", "")
            bad("crash", "consumers" if which is None else "consumer:" + consumers[which].split("(")[0], pay, {"site": ps[0], "msg": ps[1]})
            return ("crash", None)
        if cls in ("timeout", "harness"):
            return ("inconclusive", None)
        return (cls, pay if cls == "ok" else pay.get("kind"))

    ra, rp = side("a"), side("p")
    if "crash" in (ra[0], rp[0]):
        ok = False
    elif "inconclusive" in (ra[0], rp[0]):
        pass
    elif ra == rp and ra[0] == "ok":
        acc.inc("consumer_probes_agree", len(consumers))
    else:
        # some consumer fails on this element type (then it must fail on both sides) or the two sides differ: one by one
        for i in range(len(consumers)):
            xa, xp = side("a", i), side("p", i)
            if "crash" in (xa[0], xp[0]):
                ok = False
            elif "inconclusive" not in (xa[0], xp[0]) and xa != xp:
                bad("consumer-tells-representations-apart", "consumer:" + consumers[i].split("(")[0], {"view": xa, "plain": xp},
                    {"consumer": consumers[i].split("(")[0]})
                ok = False
            else:
                acc.inc("consumer_probes_agree")
    # 3. out-of-range and negative probes must each be an error
    for i in (-2, -1, L, L + 1, L + 2):
        cls, pay, rec = call("local a = %s; a[%d]" % (src, i))
        if cls in ("timeout", "harness"):
            acc.inconclusive.append({"case": case, "why": cls})
            continue
        if cls in ("panic", "crash"):
            p = panic_sig(pay) if cls == "panic" else ("crash", "")
            bad("crash", "oob-index", pay, {"site": p[0], "msg": p[1], "where": "below" if i < 0 else "beyond"})
            ok = False
        elif cls == "ok":
            bad("value-instead-of-error", "oob-index", {"index": i, "value": pay},
                {"where": "below" if i < 0 else ("at-len" if i == L else "beyond")})
            ok = False
    if ok and len(chain) > 1:
        acc.distinct(src)
    acc.add("chains", ">".join(chain[-2:]))


def lazy_error_cases():
    """views over arrays with a failing element that the probes never touch"""
    base = "[10, error 'bomb', 12, 13]"
    out = []
    for src, idx, val in (
        ("(%s)[2:]" % base, 0, 12.0), ("(%s)[::2]" % base, 1, 12.0),
        ("std.reverse(%s)" % base, 0, 13.0), ("std.repeat(%s, 2)" % base, 4, 10.0),
        ("(%s + [1])" % base, 4, 1.0), ("std.map(function(x) x + 1, %s)" % base, 3, 14.0),
        ("std.reverse((%s)[2:])" % base, 1, 12.0), ("(std.range(1,1000) + %s)" % base, 1002, 12.0),
        ("std.mapWithIndex(function(i, x) x + i, %s)" % base, 2, 14.0),
        ("std.makeArray(3, function(i) if i == 1 then error 'bomb' else i)", 2, 2.0),
        ("[if x == 1 then error 'bomb' else x for x in [0, 1, 2]]", 2, 2.0),
        ("std.objectValues({a: 1, b: error 'bomb', c: 3})", 2, 3.0),
        ("std.map(function(kv) kv.value, std.objectKeysValues({a: 1, b: error 'bomb', c: 3}))", 2, 3.0),
        ("std.map(function(kv) std.length(kv.key), std.objectKeysValues({a: 1, bb: error 'bomb', c: 3}))", 1, 2.0),
    ):
        out.append((src, idx, val))
    return out


def shard(idx, n, tier, seed, builds):
    acc = runner.Acc()
    rng = runner.rng_for(seed, "c08")
    allc = list(compositions(tier, rng))
    mine = runner.chunks(allc, idx, n)
    for build, binary in builds.items():
        w = runner.Worker(binary)
        try:
            for src, lst, kind, chain in mine:
                check_array(acc, w, build, src, lst, kind, chain)
            if idx == 0:
                for src, i, val in lazy_error_cases():
                    acc.inc("evaluations")
                    cls, pay = outcome(w.call({"op": "eval", "code": "local a = %s; [std.length(a), a[%d]]" % (src, i)}))
                    if cls != "ok" or not deep_equal(strict_json(pay)[1], val):
                        acc.violation({"oracle": "lazy-element", "probe": "index"},
                                      {"expr": src, "index": i, "observed": pay, "build": build})
                    else:
                        acc.inc("lazy_error_views_ok")
        finally:
            w.close()
    if mine:
        c = mine[len(mine) // 2]
        acc.sample({"expr": c[0], "expected": c[1] if len(c[1]) < 15 else len(c[1]), "chain": c[3]})
    return acc


def run(tier, seed, t0):
    builds = {"rel": runner.build("rel")["jv-worker"], "chk": runner.build("chk")["jv-worker"]}
    accs = runner.shard_map(shard, (tier, seed, builds))
    acc = runner.Acc()
    for a in accs:
        acc.merge(a)
    return runner.finish(
        PROP, tier, seed, "exploration", acc, t0,
        rule="compositions of view-producing array operations (slice x all start/end/step, reverse, "
             "repeat, concat either side, map, mapWithIndex, filter, comprehension, flattenArrays, "
             "join, removeAt, std.slice) over 50 small bases (10 producers x lengths 0,1,2,3,5) to "
             "depth 2 (quick: depth-1 exhaustive, depth-2 300 sampled depth-1 arrays x a reduced operation list) / depth 2 "
             "exhaustive + random depth 3-4 (thorough), plus concatenations across the 1000-element "
             "threshold; each array probed by manifestation, an 18-probe record and 5 out-of-range "
             "indexes, on the rel and chk builds; distinct_nontrivial = distinct composed expressions "
             "(>= 1 view layer) on which every probe agreed with the Python list",
        assumptions=["Python list slicing equals the documented std.slice semantics for step > 0"],
        exhaustive=False, min_events=1000)


def replay(path):
    w = json.load(open(path))["witness"]
    b = runner.build(w.get("build", "rel"))
    wk = runner.Worker(b["jv-worker"])
    code = "local a = %s; a" % w["expr"]
    print(json.dumps({"code": code, "observed": wk.call({"op": "eval", "code": code, "repr": True}),
                      "witness": w}, indent=1, default=str))
    wk.close()
    return 0
