"""C01 - evaluation agrees with the Jsonnet language semantics.

Observed: result event (JSON value / error) of each variant of each program.
Oracle: the reference evaluator (mon/ref/interp.py, written from the specification, run on
the generator's AST) plus the metamorphic relation that all variants of one program agree.
Configurations per program: parser (default / legacy), embedding (snippet, imported file,
ext-code variable, top-level-function body), parenthesisation (minimal / full).
"""
import itertools
import json
import os
import random
import shutil
import tempfile

from .. import runner
from ..common import outcome, strict_json, deep_equal, panic_sig
from ..gen import prog
from ..ref import interp, jast

PROP = "C01"
N, S, V = prog.N, prog.S, prog.V

# ----------------------------------------------------------------- systematic tables
KINDS = {
    "null": ("lit", "null"), "true": ("lit", "true"), "false": ("lit", "false"),
    "int": N(3), "zero": N(0), "neg": N(-2), "frac": N(0.5), "big": N(2 ** 40),
    "str_empty": S(""), "str": S("ab"), "str_u": S("é漢"),
    "arr": ("arr", [N(1), N(2)]), "arr_empty": ("arr", []), "arr_s": ("arr", [S("a")]),
    "obj": ("obj", [("field", ("fixed", "a"), False, ":", None, N(1))]),
    "obj_empty": ("obj", []),
    "obj_hidden": ("obj", [("field", ("fixed", "ab"), False, "::", None, N(1))]),
    "fn": ("fn", [("x", None)], V("x")),
}
BINOPS = ["*", "/", "%", "+", "-", "<<", ">>", "<", ">", "<=", ">=", "in", "==", "!=", "&", "^", "|", "&&", "||"]
UNOPS = ["-", "+", "!", "~"]


def systematic():
    out = []
    for op in BINOPS:
        for (ka, a), (kb, b) in itertools.product(KINDS.items(), repeat=2):
            out.append(("bin:%s:%s:%s" % (op, ka, kb), ("bin", op, a, b)))
    for op in UNOPS:
        for k, a in KINDS.items():
            out.append(("un:%s:%s" % (op, k), ("un", op, a)))
    idx = [N(0), N(1), N(2), N(-1), N(0.5), S("a"), S("ab"), ("lit", "null"), ("lit", "true"), ("arr", [])]
    for (k, a), (j, i) in itertools.product(KINDS.items(), enumerate(idx)):
        out.append(("index:%s:%d" % (k, j), ("index", a, i)))
    sl = [None, N(0), N(1), N(-1), N(5)]
    for k, a in KINDS.items():
        for x, y, z in itertools.product(sl, sl, [None, N(1), N(2), N(0), N(-1)]):
            out.append(("slice:%s" % k, ("slice", a, x, y, z)))
    # call shapes
    f = ("fn", [("a", None), ("b", N(2)), ("c", ("bin", "+", V("a"), V("b")))], ("arr", [V("a"), V("b"), V("c")]))
    g = ("fn", [("a", V("b")), ("b", V("a"))], V("a"))   # mutually dependent defaults
    shapes = [
        ([N(1)], []), ([N(1), N(5)], []), ([N(1), N(5), N(7)], []), ([N(1), N(5), N(7), N(9)], []), ([], []),
        ([], [("a", N(1))]), ([], [("b", N(1))]), ([N(1)], [("a", N(2))]), ([N(1)], [("c", N(2))]),
        ([N(1)], [("zz", N(2))]), ([], [("a", N(1)), ("a", N(2))]), ([], [("c", N(0)), ("a", N(1))]),
        ([("error", S("lazy"))], [("c", N(0))]), ([N(1), ("error", S("lazy"))], [("c", N(0))]),
    ]
    for i, (args, named) in enumerate(shapes):
        for ts in (False, True):
            out.append(("call:%d:%s" % (i, ts), ("apply", f, args, named, ts)))
    out.append(("call:mutual-defaults", ("apply", g, [], [], False)))
    out.append(("call:mutual-defaults-one", ("apply", g, [N(1)], [], False)))
    out.append(("call:nonfunction", ("apply", N(1), [], [], False)))
    # the same object value used as a layer more than once in one chain (a mixin applied twice): caches keyed per
    # object instead of per (object, layer) show up here as a wrong `super`
    from . import c02
    import random as _random
    reuse = [sp for sp in c02.chains("quick", _random.Random(7)) if len(sp) > 3]
    for i, sp in enumerate(reuse[::max(1, len(reuse) // 400)]):
        binds, chain = c02.build(sp)
        out.append(("mixin-reuse:%d" % i, ("local", binds, chain) if binds else chain))
    # locals / closures / shadowing / recursion
    out.append(("local:dup", ("local", [("bind", "a", N(1)), ("bind", "a", N(2))], V("a"))))
    out.append(("fn:dup-param", ("apply", ("fn", [("a", None), ("a", None)], V("a")), [N(1), N(2)], [], False)))
    out.append(("local:mutual", ("local", [("bindfn", "ev", [("n", None)], ("if", ("bin", "==", V("n"), N(0)), ("lit", "true"), ("apply", V("od"), [("bin", "-", V("n"), N(1))], [], False))),
                                           ("bindfn", "od", [("n", None)], ("if", ("bin", "==", V("n"), N(0)), ("lit", "false"), ("apply", V("ev"), [("bin", "-", V("n"), N(1))], [], False)))],
                                 ("arr", [("apply", V("ev"), [N(6)], [], False), ("apply", V("od"), [N(6)], [], False)]))))
    out.append(("closure:comp", ("arrcomp", ("apply", V("f"), [], [], False),
                                 [("for", "f", ("arrcomp", ("fn", [], V("i")), [("for", "i", ("arr", [N(1), N(2), N(3)]))]))])))
    out.append(("if:nonbool", ("if", N(1), N(2), N(3))))
    out.append(("if:noelse", ("if", ("lit", "false"), N(2), None)))
    out.append(("self:outside", ("lit", "self")))
    out.append(("super:none", ("obj", [("field", ("fixed", "a"), False, ":", None, ("index", ("lit", "super"), S("x"), "dot"))])))
    out.append(("insuper:none", ("obj", [("field", ("fixed", "a"), False, ":", None, ("bin", "in", S("x"), ("lit", "super")))])))
    out.append(("field:dup", ("obj", [("field", ("fixed", "a"), False, ":", None, N(1)), ("field", ("dyn", S("a")), False, ":", None, N(2))])))
    out.append(("field:null-name", ("obj", [("field", ("dyn", ("lit", "null")), False, ":", None, N(1)), ("field", ("fixed", "b"), False, ":", None, N(2))])))
    out.append(("field:num-name", ("obj", [("field", ("dyn", N(1)), False, ":", None, N(1))])))
    out.append(("objcomp:dup", ("objcomp", [], ("field", ("dyn", V("k")), False, ":", None, N(1)), [("for", "k", ("arr", [S("a"), S("a")]))])))
    out.append(("objcomp:null", ("objcomp", [], ("field", ("dyn", V("k")), False, ":", None, N(1)), [("for", "k", ("arr", [S("a"), ("lit", "null")]))])))
    out.append(("comp:nonarray", ("arrcomp", V("x"), [("for", "x", N(3))])))
    out.append(("comp:if-nonbool", ("arrcomp", V("x"), [("for", "x", ("arr", [N(1)])), ("if", N(1))])))
    out.append(("assert:msg", ("assert", ("lit", "false"), S("m"), N(1))))
    out.append(("assert:nonbool", ("assert", N(1), None, N(1))))
    out.append(("error:nonstring", ("error", ("obj", []))))
    out.append(("manifest:fn", ("arr", [("fn", [], N(1))])))
    out.append(("manifest:hidden", ("obj", [("field", ("fixed", "a"), False, "::", None, ("error", S("x"))), ("field", ("fixed", "b"), False, ":", None, N(1))])))
    return out


def precedence_programs():
    """every pair of binary operators in both nestings, printed with minimal parentheses;
    plus unary-over-binary.  Operands are chosen so that the two groupings differ."""
    out = []
    arith = ["*", "/", "%", "+", "-", "<<", ">>", "&", "^", "|"]
    vals = [N(7), N(2), N(3)]
    for o1, o2 in itertools.product(arith, repeat=2):
        out.append(("prec:%s:%s:left" % (o1, o2), ("bin", o2, ("bin", o1, vals[0], vals[1]), vals[2])))
        out.append(("prec:%s:%s:right" % (o1, o2), ("bin", o1, vals[0], ("bin", o2, vals[1], vals[2]))))
    for o in arith:
        for c in ["<", "<=", "==", "!="]:
            out.append(("prec:%s:%s" % (o, c), ("bin", c, ("bin", o, vals[0], vals[1]), vals[2])))
            out.append(("prec:%s:%s:r" % (c, o), ("bin", c, vals[0], ("bin", o, vals[1], vals[2]))))
    for c in ["<", "=="]:
        for l in ["&&", "||"]:
            out.append(("prec:%s:%s" % (c, l), ("bin", l, ("bin", c, N(1), N(2)), ("bin", c, N(2), N(1)))))
    out.append(("prec:&&:||", ("bin", "||", ("lit", "true"), ("bin", "&&", ("lit", "false"), ("lit", "false")))))
    out.append(("prec:||:&&", ("bin", "&&", ("bin", "||", ("lit", "true"), ("lit", "false")), ("lit", "false"))))
    for u in ["-", "~", "+"]:
        for o in arith:
            out.append(("prec:unary:%s:%s" % (u, o), ("bin", o, ("un", u, vals[0]), vals[1])))
            out.append(("prec:unary-r:%s:%s" % (u, o), ("bin", o, vals[0], ("un", u, vals[1]))))
            out.append(("prec:unary-over:%s:%s" % (u, o), ("un", u, ("bin", o, vals[0], vals[1]))))
            out.append(("prec:unary-mid:%s:%s" % (u, o), ("bin", "*", ("bin", o, vals[0], ("un", u, vals[1])), vals[2])))
    out.append(("prec:!:&&", ("bin", "&&", ("un", "!", ("lit", "true")), ("lit", "false"))))
    out.append(("prec:!:==", ("bin", "==", ("un", "!", ("lit", "true")), ("lit", "false"))))
    out.append(("prec:in", ("bin", "==", ("bin", "in", S("a"), ("obj", [])), ("lit", "false"))))
    out.append(("prec:index-neg", ("un", "-", ("index", ("arr", [N(1), N(2)]), N(1)))))
    out.append(("prec:apply-neg", ("un", "-", ("apply", ("fn", [], N(5)), [], [], False))))
    return out


def rope_programs():
    """strings have two internal representations (flat, and a tree of pieces for concatenations of >= 100 bytes).
    The same texts - equal, differing in one character, one a prefix of the other, ASCII and not - are written as
    literals and as concatenations associated differently; every comparison, concatenation, index, slice, key lookup
    and length must depend on the text only."""
    P, Q, U = "x" * 60, "y" * 60, "\u00e9" * 30
    cat = lambda a, b: ("bin", "+", a, b)
    kinds = {}
    for m in ("a", "b"):
        kinds["flat_" + m] = S(P + m + Q)
        kinds["left_" + m] = cat(cat(S(P), S(m)), S(Q))
        kinds["right_" + m] = cat(S(P), cat(S(m), S(Q)))
        kinds["deepflat_" + m] = S(P + Q + m + Q + P)
        kinds["deepl_" + m] = cat(cat(cat(S(P), S(Q)), cat(S(m), S(Q))), S(P))
        kinds["deepr_" + m] = cat(S(P), cat(S(Q), cat(cat(S(m), S(Q)), S(P))))
        kinds["uflat_" + m] = S(U + m + Q)
        kinds["uleft_" + m] = cat(cat(S(U), S(m)), S(Q))
        kinds["uright_" + m] = cat(S(U[:11]), cat(S(U[11:] + m), S(Q)))
    kinds["prefix_flat"] = S(P + "a" + Q[:59])
    kinds["prefix_rope"] = cat(S(P[:50]), cat(S(P[50:] + "a"), S(Q[:59])))
    kinds["longer_rope"] = cat(cat(S(P), S("a" + Q)), S("!"))
    out = []
    for (ka, a), (kb, b) in itertools.product(kinds.items(), repeat=2):
        if ka[:4] == kb[:4] or "flat" in ka or "flat" in kb or "prefix" in ka + kb or "longer" in ka + kb or ka[0] == kb[0]:
            body = ("arr", [("bin", op, V("a"), V("b")) for op in ("==", "!=", "<", "<=", ">", ">=")]
                    + [("bin", "<", ("arr", [N(1), V("a")]), ("arr", [N(1), V("b")])),
                       ("bin", "==", ("arr", [V("a"), V("b")]), ("arr", [V("b"), V("a")])),
                       ("bin", "in", V("a"), ("obj", [("field", ("dyn", V("b")), False, ":", None, N(1))])),
                       ("bin", "==", ("bin", "+", V("a"), V("b")), ("bin", "+", V("b"), V("a"))),
                       ("apply", ("index", V("std"), S("length"), "dot"), [("bin", "+", V("a"), V("b"))], [], False)])
            out.append(("rope:%s:%s" % (ka, kb), ("local", [("bind", "a", a), ("bind", "b", b)], body)))
    for k, a in kinds.items():
        probes = [("apply", ("index", V("std"), S("length"), "dot"), [V("a")], [], False),
                  ("index", V("a"), N(60)), ("index", V("a"), N(0)), ("index", V("a"), N(120)), ("index", V("a"), N(400)),
                  ("slice", V("a"), N(58), N(63), None), ("slice", V("a"), None, None, N(40)), ("slice", V("a"), N(119), None, None),
                  ("index", ("obj", [("field", ("dyn", V("a")), False, ":", None, N(7))]), a),
                  ("bin", "==", V("a"), a)]
        for pi, pr in enumerate(probes):
            out.append(("rope1:%s:%d" % (k, pi), ("local", [("bind", "a", a)], pr)))
    return out


# ----------------------------------------------------------------- running
def reference(ast, ext=None):
    it = interp.Interp(ext=ext)
    try:
        return it.run(ast)
    except interp.Abstain as e:
        return ("abstain", str(e))
    except RecursionError:
        return ("abstain", "reference recursion")


def observe(w, job):
    rec = w.call(job, timeout=20)
    cls, pay = outcome(rec)
    if cls == "ok":
        try:
            return ("ok", strict_json(pay)), rec
        except Exception as e:
            return ("badjson", str(e)), rec
    if cls == "err":
        return ("error", pay["kind"]), rec
    return (cls, pay), rec


def err_class(msg):
    return msg.split(":")[0][:60] if isinstance(msg, str) else ""


def compare(acc, label, src, ref, got, config, extra_sig=None):
    """ref: (ok,value)|(error,msg) ; got: (ok,value)|(error,kind)|(panic..)"""
    wit = {"case": label, "source": src, "expected": ref, "observed": got, "config": config}
    if got[0] in ("timeout", "harness"):
        acc.inconclusive.append({"case": wit, "why": got[0]})
        return False
    if got[0] == "crash" and runner.classify_crash({"crash": got[1]}) == "resource":
        acc.inc("resource_class")
        return False
    if got[0] in ("panic", "crash"):
        p = panic_sig(got[1]) if got[0] == "panic" else ("crash", "")
        acc.violation({"oracle": "crash", "site": p[0], "msg": p[1]}, wit)
        return False
    if got[0] == "badjson":
        acc.violation({"oracle": "malformed-output"}, wit)
        return False
    same = got[0] == ref[0] and (got[0] != "ok" or deep_equal(got[1], ref[1]))
    if same:
        return True
    sig = {"oracle": "outcome-differs", "expected": ref[0], "got": got[0]}
    if ref[0] == "error":
        sig["ref_error"] = err_class(ref[1])
    if got[0] == "error":
        sig["got_error"] = got[1]
    if extra_sig:
        sig.update(extra_sig)
    acc.violation(sig, wit)
    return False


def shard(idx, n, tier, seed, binary):
    acc = runner.Acc()
    td = tempfile.mkdtemp(prefix="c01-")
    wd = runner.Worker(binary)
    wl = runner.Worker(binary, env={"JRSONNET_LEGACY_PARSER": "1"})
    workers = {"default": wd, "legacy": wl}
    try:
        # (i) systematic tables, exhaustive and seed independent
        table = systematic() + precedence_programs() + rope_programs()
        for label, ast in runner.chunks(table, idx, n):
            ref = reference(ast)
            is_prec = label.startswith("prec:")
            for pname, w in workers.items():
                for full in (False, True):
                    src = jast.to_source(ast, full_parens=full)
                    acc.inc("evaluations")
                    got, _ = observe(w, {"op": "eval", "code": src})
                    if ref[0] == "abstain":
                        acc.inc("abstained")
                        if got[0] in ("panic", "crash"):
                            compare(acc, label, src, ref, got, {"parser": pname, "full_parens": full})
                        continue
                    extra = None
                    if is_prec and not full:
                        extra = {"shape": "unary-vs-multiplicative" if ("unary" in label) else "binary-pair",
                                 "parser": pname}
                    if compare(acc, label, src, ref, got, {"parser": pname, "full_parens": full}, extra):
                        acc.distinct(label + pname + str(full))
                        acc.add("tables", label.split(":")[0])
        # (ii) random type-directed programs
        count = (40000 if tier == "quick" else 600000) // n
        for i in range(count):
            rng = runner.rng_for(seed, "c01", idx, i)
            g = prog.Gen(rng, bombs=0.3 if i % 3 == 0 else 0.0)
            ast = g.program()
            ref = reference(ast)
            src = jast.to_source(ast, guard_unary=True)
            srcf = jast.to_source(ast, full_parens=True)
            if ref[0] == "abstain":
                acc.inc("abstained")
            results = {}
            variants = [("snippet", "default", {"op": "eval", "code": src}),
                        ("snippet", "legacy", {"op": "eval", "code": src}),
                        ("snippet-fullparens", "default", {"op": "eval", "code": srcf})]
            emb = i % 4
            if emb == 1:
                path = os.path.join(td, "p%d.jsonnet" % i)
                with open(path, "w") as f:
                    f.write(src)
                variants.append(("imported-file", "default", {"op": "eval", "file": path}))
                variants.append(("import-expr", "legacy", {"op": "eval", "code": "import %s" % json.dumps(path)}))
            elif emb == 2:
                variants.append(("ext-code", "default", {"op": "eval", "code": "std.extVar('p')", "ext": [["p", "code", src]]}))
            elif emb == 3:
                variants.append(("tla-body", "default", {"op": "eval", "code": "function(t, u=2) local unused = [t, u]; " + src,
                                                         "tla": [["t", "code", "1 + 1"]]}))
                variants.append(("tla-body-str", "legacy", {"op": "eval", "code": "function(t) local unused = t; " + src,
                                                            "tla": [["t", "str", "x"]]}))
                # top-level function whose defaults refer to the passed argument and to each other
                tl = ("fn", [("t", None), ("u", ("arr", [V("t"), N(7)])), ("w", ("bin", "+", V("v"), N(1))), ("v", ("index", V("u"), N(0)))],
                      ("obj", [("field", ("fixed", "p"), False, ":", None, ast), ("field", ("fixed", "uvw"), False, ":", None, ("arr", [V("u"), V("v"), V("w")]))]))
                rt = reference(("apply", tl, [], [("t", N(2))], False))
                gt, _ = observe(wd, {"op": "eval", "code": jast.to_source(tl, guard_unary=True), "tla": [["t", "code", "1 + 1"]]})
                acc.inc("evaluations")
                if rt[0] != "abstain":
                    compare(acc, "tla-defaults", jast.to_source(tl, guard_unary=True), rt, gt, {"variant": "tla-defaults", "tla": "t=1+1"})
            first = None
            allok = True
            for vname, pname, job in variants:
                acc.inc("evaluations")
                got, _ = observe(workers[pname], job)
                acc.add("configs", vname + "/" + pname)
                cfg = {"variant": vname, "parser": pname}
                if ref[0] != "abstain":
                    ok = compare(acc, "random", job.get("code", src) if vname != "imported-file" else src, ref, got, cfg)
                    allok = allok and ok
                else:
                    # metamorphic relation only: all variants of one program agree
                    if got[0] in ("panic", "crash"):
                        compare(acc, "random", src, ("abstain", ""), got, cfg)
                    key = (got[0], json.dumps(got[1], sort_keys=True, default=str) if got[0] == "ok" else None)
                    if first is None:
                        first = key
                    elif key != first and got[0] in ("ok", "error"):
                        acc.violation({"oracle": "variants-disagree", "variant": vname},
                                      {"source": src, "first": first, "this": key, "config": cfg})
            if ref[0] != "abstain" and allok:
                acc.distinct(src)
                acc.inc("programs_value" if ref[0] == "ok" else "programs_error")
            if i == 0:
                acc.sample({"source": src[:600], "reference": str(ref)[:200]})
    finally:
        wd.close()
        wl.close()
        shutil.rmtree(td, ignore_errors=True)
    return acc


def run(tier, seed, t0):
    bins = runner.build("rel")
    accs = runner.shard_map(shard, (tier, seed, bins["jv-worker"]))
    acc = runner.Acc()
    for a in accs:
        acc.merge(a)
    # experimental-syntax clause: sugared vs documented desugaring on the experimental-feature build
    from . import c01x
    c01x.run_part(acc, tier, seed)
    return runner.finish(
        PROP, tier, seed, "exploration", acc, t0,
        rule="(i) exhaustive tables: every binary operator x ordered pair of 18 operand kinds, unary x kind, "
             "index and slice shapes x kind, call shapes (positional/named/default/too many/unknown/duplicate/"
             "lazy arguments, tailstrict), static-error shapes, operator-pair precedence programs printed with "
             "minimal parentheses; each under both parsers and both parenthesisations; (ii) random type-directed "
             "programs (depth <= 5, <= ~70 nodes, 5% ill-typed, 3% planted errors, bombs in unneeded positions) "
             "x {default, legacy} parser x {minimal, full} parentheses x embedding in {snippet, imported file, "
             "import expression, ext-code variable, TLA function body}; (iii) experimental syntax (destructuring of "
             "objects / arrays with rest, defaults, skips, nesting, in parameters and comprehensions; iteration over "
             "objects; ?? and ?.): ~1000 pairs (program with the sugar, program with the documented desugaring) over "
             "operand pools with lazily failing, hidden and null members, on a build with the experimental features; "
             "the desugared program also on the standard build. distinct_nontrivial = distinct programs / "
             "table cells on which every variant agreed with the reference evaluator",
        assumptions=["mon/ref/interp.py implements the Jsonnet specification; it abstains where the documentation "
                     "does not fix the outcome (string conversion of containers, number spelling with exponents, "
                     "shift counts >= 64, nearly-integral indexes)",
                     "only value (structural, numbers as doubles) or error-ness is compared, never error text"],
        min_events=5000)


def replay(path):
    w = json.load(open(path))["witness"]
    if "sugared" in w:
        from . import c01x
        return c01x.replay_pair(w)
    cfg = w.get("config", {})
    env = {"JRSONNET_LEGACY_PARSER": "1"} if cfg.get("parser") == "legacy" else None
    wk = runner.Worker(runner.build("rel")["jv-worker"], env=env)
    print(json.dumps({"source": w["source"], "observed": wk.call({"op": "eval", "code": w["source"]}),
                      "expected": w.get("expected")}, indent=1, default=str)[:4000])
    wk.close()
    return 0
