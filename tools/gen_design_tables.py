#!/usr/bin/env python3
"""Regenerates the tables of DESIGN.md section 4.1 / 4.2 (between the SEC4 markers) from
known_findings.json and of section 7 (between the SEC7 markers) from seeded/*/meta.json."""
import glob
import json
import os
import re

V = os.path.dirname(os.path.dirname(os.path.abspath(__file__)))

WHY = {
    'C04-native-stack-syntactic-nesting': 'needs a nesting-depth limit designed into both parsers, the evaluator and the manifesters',
    'C06-default-parser-unary-precedence': 'the wrong tree is pinned by the ir-parser snapshot test (`infix.jsonnet`): cannot be repaired with the suite unedited',
    'C01-default-parser-unary-precedence': 'same root cause as C06-default-parser-unary-precedence',
    'C06-syntax-tree-parser-rejects-unary-plus': 'adding unary `+` changes the `no_lhs` test of the syntax-tree parser',
    'C01-string-times-number-extension': 'deliberate jrsonnet extension',
    'C03-string-times-number-extension': 'deliberate jrsonnet extension (same as C01)',
    'C01-identity-equality-shortcut': 'deliberate optimisation (pointer-equality shortcut)',
    'C03-identity-equality-shortcut': 'deliberate optimisation (same as C01)',
    'C05-parseJson-recursion-limit': "serde_json's recursion guard; lifting it needs `unbounded_depth` + a stack strategy",
    'C07-import-failure-memoised-in-cached-file-value': 'an import failure inside a lazily evaluated part of a cached file value is memoised in that thunk; repairing it needs error-aware thunk caching (design change)',
    'C12-empty-mapping-key': 'the parsed format code cannot distinguish `%()s` from `%s`; needs a change of the code representation',
    'C14-yaml-final-newline-of-last-block-scalar': 'changing it alters every golden YAML output ending in a block scalar',
    'C19-comments-dropped': "the prototype formatter's comment machinery only carries comments at item boundaries",
    'C19-line-comment-swallows-following-code': 'same machinery: a line comment inside a single-line construct',
    'C19-field-access-on-number-literal': 'the printer would need the lexical class of the receiver (`1 .x`)',
    'C20-comment-placement-not-idempotent': 'comment placement of the prototype formatter',
    'C20-line-comment-swallows-closing-bracket': 'comment placement of the prototype formatter',
    'C20-local-statement-inside-brackets-not-idempotent': 'a layout decision reads source multi-line-ness that the first pass changes',
    'C06-computed-import-accepted': 'both evaluator parsers accept a computed import operand and fail at evaluation; rejecting it at parse time changes the error users see',
    'C06-lone-CR-ends-comment': 'lexer-level line-ending policy shared with the formatter',
}


def why(e):
    w = WHY.get(e['id'])
    if w:
        return w
    if 'syntax-tree-parser' in e['id']:
        return 'the syntax-tree (formatter) parser is more permissive / silent than the evaluator parser here; its error reporting is incomplete by design (prototype)'
    if 'legacy-parser' in e['id']:
        return 'the legacy PEG parser deviates; it is kept for compatibility and selected only by JRSONNET_LEGACY_PARSER'
    return e.get('why_not_fixed') or 'see `what` in known_findings.json'


def sec4():
    k = json.load(open(os.path.join(V, 'known_findings.json')))
    L = ["### 4.1 Repaired: %d `fix:` commits in /repo\n" % len(k['fixed']),
         "Each is a minimal unguarded commit; the unedited test suite passes with all of them (82 stable",
         "tests + the always-failing `cpp_test_suite`, unchanged).  A fixed entry suppresses nothing: the",
         "check that found it passes on the repaired tree and reports the violation again if it returns",
         "(several seeded changes in section 7 re-introduce exactly such defects and are caught).\n",
         "| property | commit | what failed |", "|---|---|---|"]
    for e in k['fixed']:
        m = re.match(r"fixed: property=(C\d+) ([0-9a-f]+) (.*)$", e, re.S)
        what = m.group(3).replace("|", "\\|").replace("\n", " ")
        if len(what) > 230:
            what = what[:227] + "..."
        L.append("| %s | `%s` | %s |" % (m.group(1), m.group(2), what))
    L += ["", "### 4.2 Recorded, not repaired: %d known findings\n" % len(k['open']),
          "These are genuine (each has a witness against the real code) but not \"small and safe\": they are",
          "deliberate extensions, design-level gaps (no nesting limit, prototype formatter comment",
          "handling, syntax-tree parser error reporting), pinned by the repository's own snapshot tests, or",
          "need an API change.  Each is matched by an exact signature (`match` keys in",
          "`known_findings.json`); a different violation of the same property is still a `VIOLATION`.\n",
          "| id | why it is not repaired here |", "|---|---|"]
    for e in k['open']:
        L.append("| %s | %s |" % (e['id'], why(e)))
    return "\n".join(L) + "\n"


def sec7():
    L = ["| seeded change | property | what it changes / what it needs to manifest | caught by (quick tier) |", "|---|---|---|---|"]
    for d in sorted(glob.glob(os.path.join(V, 'seeded', '*'))):
        mp = os.path.join(d, 'meta.json')
        if not os.path.exists(mp):
            continue
        m = json.load(open(mp))
        L.append("| %s | %s | %s | %s |" % (os.path.basename(d), m['property'], m['change'].replace("|", "\\|"), m['detection'].replace("|", "\\|")))
    return "\n".join(L) + "\n"


def splice(s, tag, body):
    b, e = "<!-- %s-BEGIN -->" % tag, "<!-- %s-END -->" % tag
    i, j = s.index(b) + len(b), s.index(e)
    return s[:i] + "\n" + body + s[j:]


if __name__ == "__main__":
    p = os.path.join(V, 'DESIGN.md')
    s = open(p).read()
    s = splice(s, "SEC4", sec4())
    s = splice(s, "SEC7", sec7())
    open(p, 'w').write(s)
    print("DESIGN.md tables regenerated")
