#!/usr/bin/env python3
"""keep_seed.py <worktree> <k> <PROP> <dest-suffix> <change> <detection> [checks run]
copies OUT/mutant<k>.diff, demo<k>*, notes<k>.md into /verif/seeded/<PROP>-<dest-suffix>/ with meta.json"""
import glob
import json
import os
import shutil
import sys

wt, k, prop, suffix, change, detection = sys.argv[1:7]
ran = sys.argv[7] if len(sys.argv) > 7 else prop
scratch = len(sys.argv) > 8 and sys.argv[8] == "scratch"
src = os.path.join(wt, "OUT")
dst = "/verif/seeded/%s-%s" % (prop, suffix)
os.makedirs(dst, exist_ok=True)
shutil.copy(os.path.join(src, "mutant%s.diff" % k), os.path.join(dst, "patch.diff"))
for f in glob.glob(os.path.join(src, "demo%s*" % k)) + glob.glob(os.path.join(src, "notes%s.md" % k)):
    if os.path.isdir(f):
        shutil.copytree(f, os.path.join(dst, os.path.basename(f)), dirs_exist_ok=True)
    elif os.path.getsize(f) < 200000:
        shutil.copy(f, dst)
notes = open(os.path.join(src, "notes%s.md" % k)).read()
meta = {"property": prop, "change": change, "needs_to_manifest": notes[:1500],
        "confirmed": "applied in a scratch worktree: cargo test --workspace --no-fail-fast --offline -> 83 passed, only cpp_test_suite fails (as on the pristine tree); demonstration differs from / fails against the pristine tree (seedtest.sh / confirm.sh)",
        "ran": ("git -C /repo apply patch.diff; " + "; ".join("./check %s --tier quick" % p for p in ran.split()) + "; git -C /repo checkout -- .") if not scratch else
               ("patch applied to a scratch worktree of /repo (/tmp/mr1, removed afterwards); " + "; ".join("VERIF_REPO=/tmp/mr1 ./check %s --tier quick" % p for p in ran.split())
                + " from a scratch copy of /verif with its own build directories (mrun.sh) - /repo itself stayed untouched because other checks were running against it"),
        "detection": detection}
json.dump(meta, open(os.path.join(dst, "meta.json"), "w"), indent=1, ensure_ascii=False)
print("kept", dst)
