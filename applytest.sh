#!/bin/bash
# usage: applytest.sh <patch.diff> <PROP> [more props...]   (apply to /repo, run quick checks, restore)
PATCH=$1; shift
cd /repo && git status --short | grep -v '^??' && { echo "/repo dirty"; exit 4; }
git apply $PATCH || { echo "APPLY-FAILED in /repo"; exit 5; }
for P in "$@"; do
  (cd /verif && timeout 3000 ./check $P > /tmp/seedrun-$P.log 2>&1; echo "$P exit=$? $(grep -c '^VIOLATION' /tmp/seedrun-$P.log) violations"; grep -m3 "signature" /tmp/seedrun-$P.log)
done
git -C /repo checkout -q -- .
echo "== /repo restored"; git -C /repo status --short | grep -v '^??'
